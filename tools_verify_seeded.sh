#!/bin/sh
# usage: tools_verify_seeded.sh <worktree> <seeded-subdir>...   (run inside the scratch worktree: build + unedited suite with the change)
WT="$1"; shift
cd "$WT" || exit 2
for d in "$@"; do
  git checkout -q -- . ; git clean -q -fd -e _seeded
  if ! git apply "_seeded/$d/patch.diff"; then echo "$d: PATCH DOES NOT APPLY"; continue; fi
  if CARGO_NET_OFFLINE=true cargo test --workspace --no-fail-fast --offline > "_seeded/$d/my_suite.log" 2>&1; then R=pass; else R=FAIL; fi
  P=$(grep -E "^test result" "_seeded/$d/my_suite.log" | awk '{p+=$4; f+=$6} END {print p" passed, "f" failed"}')
  echo "$d: suite $R ($P)"
  git checkout -q -- . ; git clean -q -fd -e _seeded
done
