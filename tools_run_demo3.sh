#!/bin/sh
# usage: tools_run_demo3.sh <worktree> <id>  -- round-3 layout (demo/run.sh | demo/run_demo.sh | demo/demo_tests.diff)
WT="$1"; ID="$2"; cd "$WT" || exit 2
D="_seeded/$ID"
export CARGO_NET_OFFLINE=true
clean() { git checkout -q -- . ; git clean -q -fd -e _seeded; }
run_demo() {
  if [ -f "$D/demo/run.sh" ]; then bash "$D/demo/run.sh" > /tmp/demo3-$ID.out 2>&1; echo "exit $? : $(grep -E 'test result|RESULT' /tmp/demo3-$ID.out | tail -n 2 | tr '\n' ' ' | cut -c1-300)"
  elif [ -f "$D/demo/run_demo.sh" ]; then bash "$D/demo/run_demo.sh" > /tmp/demo3-$ID.out 2>&1; echo "exit $? : $(grep -E 'test result' /tmp/demo3-$ID.out | tail -n 2 | tr '\n' ' ' | cut -c1-300)"
  elif [ -f "$D/demo/demo_tests.diff" ]; then git apply "$D/demo/demo_tests.diff" || echo "demo diff does not apply"; cargo test -p texlang-stdlib --features serde --offline c08_demo 2>&1 | grep -E "^test result" | head -1
  else echo "no demo runner"; fi
}
clean; echo "[$ID] WITHOUT change:"; run_demo
clean; git apply "$D/patch.diff"; echo "[$ID] WITH change:"; run_demo
clean
