#!/bin/bash
# usage: tools_regress_seeded.sh <scratch-worktree> <id>...   -- run the quick check of each seeded change's property against it
WT="$1"; shift
for id in "$@"; do
  P=$(python3 -c "import json;print(json.load(open('/verif/seeded/$id/meta.json'))['property'])")
  /verif/tools_try_seeded.sh "$WT" /verif/seeded/$id/patch.diff "$P" > /tmp/regress-$id.out 2>&1
  if grep -a -q "^VIOLATION" /tmp/regress-$id.out; then printf '%s %s CAUGHT %s\n' "$id" "$P" "$(grep -a -m1 -o 'violation at run [0-9]*\|violation in batch[^:]*' /tmp/regress-$id.out)"; else printf '%s %s MISSED\n' "$id" "$P"; fi
done
