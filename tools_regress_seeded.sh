#!/bin/sh
# usage: tools_regress_seeded.sh <scratch-worktree> <id>...   -- run the quick check of each seeded change's property against it
WT="$1"; shift
for id in "$@"; do
  P=$(python3 -c "import json;print(json.load(open('/verif/seeded/$id/meta.json'))['property'])")
  R=$(/verif/tools_try_seeded.sh "$WT" /verif/seeded/$id/patch.diff "$P" 2>&1)
  if echo "$R" | grep -q "^VIOLATION"; then echo "$id $P CAUGHT $(echo "$R" | grep -m1 -o 'violation at run [0-9]*\|violation in batch[^:]*')"; else echo "$id $P MISSED"; echo "$R" | tail -n 3; fi
done
