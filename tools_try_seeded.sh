#!/bin/sh
# usage: tools_try_seeded.sh <scratch-worktree> <patch.diff> <property> [extra args]
# Applies the seeded change in the scratch worktree (never in /repo), runs the quick check against
# that worktree (VERIF_REPO), and reverts the worktree.
WT="$1"; P="$2"; ID="$3"; shift 3
cd "$WT" || exit 2
git checkout -q -- . ; git clean -q -fd -e _seeded
git apply "$P" || { echo "patch does not apply"; exit 2; }
cd /verif && VERIF_REPO="$WT" ./check "$ID" quick --no-evidence "$@" 2>&1 | grep -a -E "^(VIOLATION|violation|minimised|HARNESS|KNOWN|C[0-9]+:|C20 tags)" | cut -c1-700
cd "$WT" && git checkout -q -- . && git clean -q -fd -e _seeded
echo "worktree reverted"
