#!/bin/sh
# usage: tools_try_seeded.sh <patch.diff> <property> [extra args]  -- apply to /repo, run the quick check, revert.
P="$1"; ID="$2"; shift 2
cd /repo || exit 2
git status --short | grep -v '^??' | grep -q . && { echo "repo not clean"; exit 2; }
git apply "$P" || { echo "patch does not apply"; exit 2; }
cd /verif && ./check "$ID" quick --no-evidence "$@" 2>&1 | grep -E "^(VIOLATION|violation|minimised|HARNESS|C[0-9]+:|C20 tags)" | cut -c1-600
RC=$?
cd /repo && git checkout -- . 
echo "reverted; repo status: $(git status --short | grep -v '^??' | wc -l) modified files"
