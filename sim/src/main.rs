mod c01;
mod c08;
mod c09;
mod c19;
mod c20;
mod gen08;
mod check;
mod driver;
mod gen;
mod job;
mod model;
mod ops;
mod process;
mod rng;
mod state;
mod stdproc;

#[global_allocator]
static GLOBAL: process::CountingAlloc = process::CountingAlloc;

use check::{Property, RunOpts, Tier};
use driver::*;

fn tier_from(args: &[String]) -> Tier {
    let t = args
        .iter()
        .find(|a| *a == "quick" || *a == "thorough")
        .cloned()
        .or_else(|| std::env::var("VERIF_TIER").ok())
        .unwrap_or_else(|| "quick".into());
    if t == "thorough" {
        Tier::Thorough
    } else {
        Tier::Quick
    }
}

fn runs_override(args: &[String]) -> Option<u64> {
    args.iter()
        .position(|a| a == "--runs")
        .and_then(|i| args.get(i + 1))
        .and_then(|s| s.parse().ok())
        .or_else(|| std::env::var("VERIF_RUNS").ok().and_then(|s| s.parse().ok()))
}

fn run_property(id: &str, args: &[String]) -> i32 {
    let opts = RunOpts {
        tier: tier_from(args),
        seed: check::verif_seed(),
        runs_override: runs_override(args),
        write_evidence: !args.iter().any(|a| a == "--no-evidence"),
    };
    match id {
        "C01" => check::run_check(&c01::C01, &opts),
        "C08" => check::run_check(&c08::C08, &opts),
        "C09" => check::run_check(&c09::C09::new(), &opts),
        "C19" => check::run_check(&c19::C19, &opts),
        "C20" => check::run_check(&c20::C20, &opts),
        _ => {
            outln!("HARNESS-ERROR: unknown property {id}");
            2
        }
    }
}

fn replay(path: &str) -> i32 {
    let p = std::path::Path::new(path);
    let b = match std::fs::read(p) {
        Ok(b) => b,
        Err(e) => {
            outln!("HARNESS-ERROR: {e}");
            return 2;
        }
    };
    let v: serde_json::Value = match serde_json::from_slice(&b) {
        Ok(v) => v,
        Err(e) => {
            outln!("HARNESS-ERROR: {e}");
            return 2;
        }
    };
    match v.get("property").and_then(|x| x.as_str()) {
        Some("C01") => check::replay_main(&c01::C01, p),
        Some("C08") => check::replay_main(&c08::C08, p),
        Some("C09") => check::replay_main(&c09::C09::new(), p),
        Some("C19") => check::replay_main(&c19::C19, p),
        Some("C20") => check::replay_main(&c20::C20, p),
        other => {
            outln!("HARNESS-ERROR: replay file for unknown property {other:?}");
            2
        }
    }
}

fn selfcheck(args: &[String], child: bool) -> i32 {
    let n: u64 = args.get(2).and_then(|s| s.parse().ok()).unwrap_or(200);
    let seed: u64 = args.get(1).and_then(|s| s.parse().ok()).unwrap_or(check::verif_seed());
    let ids: Vec<&str> = match args.first().map(String::as_str) {
        Some("all") | None => vec!["C01", "C08", "C09", "C19", "C20"],
        Some(x) => vec![x],
    };
    let mut code = 0;
    for id in ids {
        let r = match id {
            "C01" => check::selfcheck(&c01::C01, seed, n, child),
            "C08" => check::selfcheck(&c08::C08, seed, n, child),
            "C09" => check::selfcheck(&c09::C09::new(), seed, n, child),
            "C19" => check::selfcheck(&c19::C19, seed, n, child),
            "C20" => check::selfcheck(&c20::C20, seed, n, child),
            _ => Err(format!("unknown property {id}")),
        };
        match r {
            Ok(h) => {
                if child {
                    for x in h {
                        outln!("H {x}");
                    }
                } else {
                    outln!("selfcheck {id}: {n} seeds deterministic across worker counts and OS processes");
                }
            }
            Err(e) => {
                outln!("HARNESS-ERROR: determinism self-check failed: {e}");
                code = 2;
            }
        }
    }
    code
}

fn main() {
    process::init_output();
    process::install_panic_hook();
    let args: Vec<String> = std::env::args().collect();
    match args.get(1).map(String::as_str) {
        Some("probe") => probe(&args[2..]),
        Some("check") => std::process::exit(run_property(&args[2], &args[3..])),
        Some("replay") => std::process::exit(replay(&args[2])),
        Some("gencase") => {
            // texsim gencase <property> <run index>: print the generated case as JSON
            let i: u64 = args[3].parse().unwrap();
            let seed = rng::mix(check::verif_seed(), i);
            let v = match args[2].as_str() {
                "C01" => serde_json::to_string_pretty(&c01::C01.generate(seed, i)).unwrap(),
                "C08" => serde_json::to_string_pretty(&c08::C08.generate(seed, i)).unwrap(),
                "C09" => serde_json::to_string_pretty(&c09::C09::new().generate(seed, i)).unwrap(),
                "C19" => serde_json::to_string_pretty(&c19::C19.generate(seed, i)).unwrap(),
                "C20" => serde_json::to_string_pretty(&c20::C20.generate(seed, i)).unwrap(),
                _ => String::new(),
            };
            outln!("{v}");
        }
        Some("segment-child") => std::process::exit(job::segment_child_main(&args[2..])),
        Some("survey") => {
            let n: u64 = args.get(3).and_then(|s| s.parse().ok()).unwrap_or(2000);
            let seed = check::verif_seed();
            match args[2].as_str() {
                "C01" => check::survey(&c01::C01, seed, n),
                "C08" => check::survey(&c08::C08, seed, n),
                "C09" => check::survey(&c09::C09::new(), seed, n),
                "C19" => check::survey(&c19::C19, seed, n),
                "C20" => check::survey(&c20::C20, seed, n),
                _ => {}
            }
        }
        Some("selfcheck") => std::process::exit(selfcheck(&args[2..], false)),
        Some("selfcheck-child") => std::process::exit(selfcheck(&args[2..], true)),
        Some("hashprobe") => {
            let a = process::hash_order_probe(1);
            let b = process::hash_order_probe(1);
            let c = process::hash_order_probe(2);
            outln!("same seed equal: {}", a == b);
            outln!("different seed differs: {}", a != c);
        }
        _ => {
            eprintln!("usage: texsim <probe|hashprobe> ...");
            std::process::exit(2);
        }
    }
}

/// Manual experiment: `texsim probe [--ckpt FORMAT@N] line1 line2 ...`
/// Runs the lines; optionally checkpoints after line N, restores in a new process and continues.
fn probe(args: &[String]) {
    let mut ckpt: Option<(Format, usize)> = None;
    let mut lines: Vec<String> = vec![];
    let mut spec = EnvSpec::default();
    let mut i = 0;
    while i < args.len() {
        match args[i].as_str() {
            "--ckpt" => {
                let v = &args[i + 1];
                let (f, n) = v.split_once('@').unwrap();
                let f = match f {
                    "json" => Format::Json,
                    "msgpack" => Format::MessagePack,
                    _ => Format::Bincode,
                };
                ckpt = Some((f, n.parse().unwrap()));
                i += 2;
            }
            "--file" => {
                let v = &args[i + 1];
                let (name, content) = v.split_once('=').unwrap();
                let content = content.replace("\\n", "\n");
                spec.files.push((name.to_string(), content.into_bytes()));
                i += 2;
            }
            "--term" => {
                spec.terminal.push(args[i + 1].clone());
                i += 2;
            }
            _ => {
                lines.push(args[i].clone());
                i += 1;
            }
        }
    }
    let spec2 = spec.clone();
    let lines2 = lines.clone();
    let first = process::run_process(11, move || {
        let mut p = VmProc::boot(&spec, &Clock::default());
        let mut obs = vec![];
        let upto = ckpt.map(|c| c.1).unwrap_or(lines.len());
        for l in &lines[..upto.min(lines.len())] {
            obs.push(p.exec_line(l));
        }
        let bytes = ckpt.map(|(f, _)| (f, p.checkpoint(f), p.env_cursor()));
        (obs, bytes)
    })
    .unwrap();
    for (i, o) in first.0.iter().enumerate() {
        outln!("[{}] {:?} -> out={:?} {}", i, lines2[i], o.out, o.result.short());
        if !o.term_out.is_empty() {
            outln!("     term_out: {:?}", o.term_out);
        }
        if !o.prompts.is_empty() {
            outln!("     prompts: {:?}", o.prompts);
        }
    }
    if let Some((f, bytes, cursor)) = first.1 {
        let bytes = match bytes {
            Ok(b) => b,
            Err(e) => {
                outln!("checkpoint failed: {e}");
                return;
            }
        };
        outln!("-- checkpoint {} bytes ({})", bytes.len(), f.name());
        let n = ckpt.unwrap().1;
        let lines3 = lines2.clone();
        let second = process::run_process(22, move || {
            let mut p = match VmProc::restore(f, &bytes, &spec2, &cursor, &[], n) {
                Ok(p) => p,
                Err(e) => return Err(e),
            };
            let mut obs = vec![];
            for l in &lines3[n.min(lines3.len())..] {
                obs.push(p.exec_line(l));
            }
            Ok(obs)
        })
        .unwrap();
        match second {
            Err(e) => outln!("restore failed: {e}"),
            Ok(obs) => {
                for (i, o) in obs.iter().enumerate() {
                    outln!(
                        "[{}] {:?} -> out={:?} {}",
                        n + i,
                        lines2[n + i],
                        o.out,
                        o.result.short()
                    );
                }
            }
        }
    }
}
