//! The same line driver over the repository's own `texlang_stdlib::StdLibState`, so that the
//! serde derive glue of that exact type is exercised by the checkpoint oracle.
//!
//! `StdLibState` hard-wires the real file system, stdin and stdout, so this configuration only
//! runs workloads that touch none of them: no file or terminal primitives, no interaction-mode
//! switches (recovered errors would be written to the real stdout), no `\tracingmacros`.
//! Tokens are delivered into a thread-local sink (handlers are static functions).

use std::cell::RefCell;
use std::path::PathBuf;

use texlang::token;
use texlang::vm;
use texlang_stdlib::StdLibState;

use crate::driver::*;
use crate::process::{catch, Caught};
use crate::state::{render_tokens, std_built_ins, SIM_CWD};

thread_local! {
    static SINK: RefCell<Vec<token::Token>> = const { RefCell::new(Vec::new()) };
}

pub struct StdSinkHandlers;

impl vm::Handlers<StdLibState> for StdSinkHandlers {
    fn character_handler(
        _input: &mut vm::ExecutionInput<StdLibState>,
        token: token::Token,
        _c: char,
    ) -> texlang::prelude::Result<()> {
        SINK.with(|s| s.borrow_mut().push(token));
        Ok(())
    }
    fn unexpanded_expansion_command(
        _input: &mut vm::ExecutionInput<StdLibState>,
        token: token::Token,
    ) -> texlang::prelude::Result<()> {
        SINK.with(|s| s.borrow_mut().push(token));
        Ok(())
    }
}

pub struct StdProc {
    pub vm: Box<vm::VM<StdLibState>>,
}

impl StdProc {
    pub fn boot(clock: &Clock) -> StdProc {
        let mut vm = Box::new(vm::VM::<StdLibState>::new_with_built_in_commands(
            std_built_ins(),
        ));
        vm.state.time = texlang_stdlib::time::Component::new_with_values(
            clock.minutes,
            clock.day,
            clock.month,
            clock.year,
        );
        vm.working_directory = Some(PathBuf::from(SIM_CWD));
        StdProc { vm }
    }

    pub fn restore(format: Format, bytes: &[u8]) -> Result<StdProc, String> {
        let r = catch(|| -> Result<Box<vm::VM<StdLibState>>, String> {
            match format {
                Format::Json => {
                    let mut d = serde_json::Deserializer::from_slice(bytes);
                    vm::VM::deserialize_with_built_in_commands(&mut d, std_built_ins())
                        .map(Box::new)
                        .map_err(|e| format!("json: {e}"))
                }
                Format::MessagePack => {
                    let mut d = rmp_serde::decode::Deserializer::from_read_ref(bytes);
                    vm::VM::deserialize_with_built_in_commands(&mut d, std_built_ins())
                        .map(Box::new)
                        .map_err(|e| format!("msgpack: {e}"))
                }
                Format::Bincode => {
                    let d: Result<(Box<vm::serde::DeserializedVM<StdLibState>>, usize), _> =
                        bincode::serde::decode_from_slice(bytes, bincode::config::standard());
                    match d {
                        Ok((d, _)) => Ok(Box::new(vm::serde::finish_deserialization(
                            d,
                            std_built_ins(),
                        ))),
                        Err(e) => Err(format!("bincode: {e}")),
                    }
                }
            }
        });
        match r {
            Caught::Ok(Ok(mut vm)) => {
                vm.working_directory = Some(PathBuf::from(SIM_CWD));
                Ok(StdProc { vm })
            }
            Caught::Ok(Err(e)) => Err(format!("deserialise error: {e}")),
            Caught::Budget => Err("budget in deserialise".into()),
            Caught::Panic { location, message } => {
                Err(format!("deserialise panic at {location}: {message}"))
            }
        }
    }

    pub fn checkpoint(&self, format: Format) -> Result<Vec<u8>, String> {
        let vm = &self.vm;
        let r = catch(|| -> Result<Vec<u8>, String> {
            match format {
                Format::Json => serde_json::to_vec(vm.as_ref()).map_err(|e| format!("json: {e}")),
                Format::MessagePack => {
                    rmp_serde::to_vec(vm.as_ref()).map_err(|e| format!("msgpack: {e}"))
                }
                Format::Bincode => {
                    bincode::serde::encode_to_vec(vm.as_ref(), bincode::config::standard())
                        .map_err(|e| format!("bincode: {e}"))
                }
            }
        });
        match r {
            Caught::Ok(r) => r.map_err(|e| format!("serialise error: {e}")),
            Caught::Budget => Err("budget in serialise".into()),
            Caught::Panic { location, message } => {
                Err(format!("serialise panic at {location}: {message}"))
            }
        }
    }

    pub fn exec_line(&mut self, text: &str) -> LineObs {
        let vm = &mut self.vm;
        SINK.with(|s| s.borrow_mut().clear());
        let name = format!("{SIM_CWD}/job.tex");
        let r = catch(|| {
            vm.clear_sources();
            let _ = vm.push_source(name, text);
            vm.run::<StdSinkHandlers>()
        });
        let result = match r {
            Caught::Ok(Ok(())) => LineResult::Ok,
            Caught::Ok(Err(e)) => LineResult::Err(err_sig(&e)),
            Caught::Budget => LineResult::Budget,
            Caught::Panic { location, message } => LineResult::Panic { location, message },
        };
        let out = SINK.with(|s| render_tokens(&s.borrow(), vm.cs_name_interner()));
        LineObs {
            out,
            result,
            term_out: String::new(),
            log: String::new(),
            prompts: vec![],
            term_lines_consumed: 0,
            font: vm.current_font().0,
            font_events: vec![],
            exec_stack: vm.generate_stack_trace().len(),
            num_sources_after: vm.num_current_sources(),
            runaway_input: false,
        }
    }
}
