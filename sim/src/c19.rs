//! C19 — `\input`, `\endinput`, `\read`.
//!
//! Three case kinds:
//!  * Inline: metamorphic oracle — a program with `\input`s must behave like the same program
//!    with (some of) the files' lines standing in place (TeX's rule: `pre %⏎ lines ⏎ rest`).
//!  * Streams: an independent line-level model of TeX's `\openin` / `\read` / `\ifeof` /
//!    `\closein`, compared after every operation; optionally under crash/restart schedules.
//!  * Limit: self-including files and long chains against the documented limit of 100.
//!
//! Two known deviations are evaluated through deviation models (DESIGN 2.9): K1 (`\endinput`
//! drops the rest of its own line) and K2 (a read stream closes with its last real line instead
//! of after the empty line TeX appends).

use std::collections::BTreeMap;
use serde::{Deserialize, Serialize};

use crate::c01::{add_fault_counters, components_json, panic_site};
use crate::check::*;
use crate::driver::*;
use crate::gen;
use crate::job::*;
use crate::rng::Rng;
use crate::state::IoFault;

pub const K1: &str = "C19-K1-endinput-drops-rest-of-line";
pub const K2: &str = "C19-K2-read-stream-closes-with-last-line";

// ------------------------------------------------------------------ inline equivalence

#[derive(Clone, Debug, Serialize, Deserialize, PartialEq, Eq)]
pub enum Term {
    Space,
    Relax,
    Eol,
    Ext,
    /// The `\input` comes out of a parameterless macro (`\def\xIa{\input fa }`, call `\xIa `).
    Macro,
    /// `\relax` directly followed by the next piece, no blank in between.
    RelaxTight,
    /// Through a macro with a space-delimited parameter and tokens after the name in its body
    /// (`\def\xK#1 {\input #1 [K]}`), called as the last thing on a line so that the end of
    /// the line delimits the argument: the caller's line is used up while `[K]` is still pending.
    ArgMacro,
}

#[derive(Clone, Debug, Serialize, Deserialize, PartialEq, Eq)]
pub enum Piece {
    Text(String),
    Input { file: usize, term: Term },
    EndInput,
    /// `\endinput` out of a macro (`\def\xE{\endinput}`, call `\xE `).
    EndInputMacro,
}

#[derive(Clone, Debug, Serialize, Deserialize, PartialEq, Eq)]
pub struct FileSpec {
    pub lines: Vec<Vec<Piece>>,
    pub final_newline: bool,
    pub missing: bool,
    /// The file exists but reading it fails with this error.
    #[serde(default)]
    pub fault: Option<IoFault>,
}

#[derive(Clone, Debug, Serialize, Deserialize)]
pub struct InlineCase {
    pub main: Vec<Vec<Piece>>,
    pub files: Vec<FileSpec>,
    pub hash_seed: u64,
}

/// File names use every kind of character TeX accepts in a name (tex.web 526: any character
/// token up to "other", i.e. also `_ & $ # ^`), and a file named by their common prefix exists too,
/// so that a name scan that stops early reads a different, existing file.
const FILE_NAMES: [&str; 6] = ["fa", "f_b", "f.c", "f&d", "f$e", "f^g"];
const PREFIX_FILE: (&str, &str) = ("f.tex", "TRUNCATED\n");

fn file_name(i: usize) -> String {
    FILE_NAMES[i % FILE_NAMES.len()].to_string()
}

fn render_piece(p: &Piece) -> String {
    match p {
        Piece::Text(s) => s.clone(),
        Piece::Input { file, term } => {
            // A name that contains a dot is always written with its extension: without it, TeX
            // takes what follows the last dot as the extension (a different file).
            let name = file_name(*file);
            let name = if name.contains('.') {
                format!("{name}.tex")
            } else {
                name
            };
            match term {
                Term::Macro => format!("\\xI{} ", (b'a' + (*file % FILE_NAMES.len()) as u8) as char),
                Term::Space => format!("\\input {name} "),
                Term::Relax => format!("\\input {name}\\relax "),
                Term::RelaxTight => format!("\\input {name}\\relax"),
                Term::ArgMacro => format!("\\xK {name}"),
                Term::Eol => format!("\\input {name}"),
                Term::Ext => {
                    if name.ends_with(".tex") {
                        format!("\\input {name} ")
                    } else {
                        format!("\\input {name}.tex ")
                    }
                }
            }
        }
        Piece::EndInput => "\\endinput ".to_string(),
        Piece::EndInputMacro => "\\xE ".to_string(),
    }
}

fn render_line(l: &[Piece]) -> String {
    l.iter().map(render_piece).collect()
}

fn render_file(f: &FileSpec) -> String {
    let mut s = String::new();
    for (i, l) in f.lines.iter().enumerate() {
        s.push_str(&render_line(l));
        if i + 1 < f.lines.len() || f.final_newline {
            s.push('\n');
        }
    }
    s
}

/// The lines the file really has: a last line that renders to nothing and is not followed by a
/// newline does not exist.
fn effective_lines(f: &FileSpec) -> &[Vec<Piece>] {
    match f.lines.last() {
        Some(l) if !f.final_newline && render_line(l).is_empty() => &f.lines[..f.lines.len() - 1],
        _ => &f.lines,
    }
}

#[derive(Clone, Copy, PartialEq, Eq)]
enum Sem {
    Tex,
    K1,
}

/// Inline the files into one line of pieces. Returns the lines that stand in place of it, and
/// whether an `\endinput` took effect (the enclosing file must stop after this line).
fn flatten_line(
    line: &[Piece],
    files: &[FileSpec],
    sem: Sem,
    in_file: bool,
    depth: usize,
    at_maybe_comment: &mut bool,
) -> (Vec<String>, bool) {
    let mut out: Vec<String> = vec![];
    let mut cur = String::new();
    let mut resumed = false;
    let mut ended = false;
    // Once `@` may be a comment character (some file made it one; over-approximated as sticky),
    // an `@` in a line may swallow the rest of that line: nothing after it is inlined. Not
    // inlining is always safe - the relation only ever claims equivalence for what it inlines.
    let mut swallowed = false;
    for (pi, p) in line.iter().enumerate() {
        if swallowed {
            cur.push_str(&render_piece(p));
            continue;
        }
        match p {
            Piece::Text(s) => {
                cur.push_str(s);
                if s.contains("catcode64=14") {
                    *at_maybe_comment = true;
                }
                if s.contains('@') && *at_maybe_comment {
                    swallowed = true;
                }
            }
            Piece::Input { file, term } => {
                let f = &files[*file];
                if f.missing || f.fault.is_some() || depth >= 6 {
                    // Not inlined: the \input stays (and fails identically in both programs). A
                    // fatal error ends the line, so nothing after it matters.
                    cur.push_str(&render_piece(p));
                    let _ = pi;
                    continue;
                }
                out.push(format!("{cur}%"));
                let mut stop = false;
                for fl in effective_lines(f) {
                    let (ls, e) = flatten_line(fl, files, sem, true, depth + 1, at_maybe_comment);
                    out.extend(ls);
                    if e {
                        stop = true;
                        break;
                    }
                }
                let _ = stop;
                cur = match term {
                    Term::Relax => "\\relax ".to_string(),
                    Term::RelaxTight => "\\relax".to_string(),
                    // the end of the caller's line was consumed as the argument delimiter
                    Term::ArgMacro => "[K]%".to_string(),
                    _ => String::new(),
                };
                resumed = true;
            }
            Piece::EndInput | Piece::EndInputMacro => {
                if in_file {
                    ended = true;
                }
                match sem {
                    Sem::Tex => {
                        // The line is read to its end; the token itself does nothing visible. It
                        // is replaced by \relax so that the lexer is in the same state (blanks
                        // skipped after a control word) as after `\endinput `.
                        cur.push_str("\\relax ");
                    }
                    Sem::K1 => {
                        // The rest of the line and its end-of-line character are dropped.
                        out.push(format!("{cur}%"));
                        return (out, ended);
                    }
                }
            }
        }
    }
    if !(resumed && cur.trim().is_empty()) {
        out.push(cur);
    }
    (out, ended)
}

fn flatten_main(case: &InlineCase, sem: Sem) -> Vec<String> {
    let mut at_maybe_comment = false;
    case.main
        .iter()
        .map(|l| {
            let (ls, _) = flatten_line(l, &case.files, sem, false, 0, &mut at_maybe_comment);
            if ls.len() <= 1 {
                // nothing was inlined (or everything vanished): keep the single-line form
                ls.concat()
            } else {
                // every line, the last one included, is terminated: a final empty line must
                // stay a line
                ls.iter().map(|l| format!("{l}\n")).collect()
            }
        })
        .collect()
}

fn inline_preamble() -> String {
    let mut s = String::from("\\def\\par{<P>}\\def\\xE{\\endinput}\\def\\xK#1 {\\input #1 [K]}");
    for (i, n) in FILE_NAMES.iter().enumerate() {
        let written = if n.contains('.') {
            format!("{n}.tex")
        } else {
            n.to_string()
        };
        s.push_str(&format!("\\def\\xI{}{{\\input {written} }}", (b'a' + i as u8) as char));
    }
    s.push('%');
    s
}

fn inline_job(case: &InlineCase, lines: Vec<String>) -> Job {
    let mut all = vec![inline_preamble()];
    all.extend(lines);
    Job {
        lines: all,
        env: EnvSpec {
            files: case
                .files
                .iter()
                .enumerate()
                .filter(|(_, f)| !f.missing)
                .map(|(i, f)| (format!("{}.tex", file_name(i)), render_file(f).into_bytes()))
                .chain(std::iter::once((
                    PREFIX_FILE.0.to_string(),
                    PREFIX_FILE.1.as_bytes().to_vec(),
                )))
                // Decoys: files whose name is the bare name as written, without `.tex`. A name
                // written without an extension means `name.tex`; the decoys must never be read.
                .chain(
                    (0..case.files.len())
                        .filter(|i| !file_name(*i).contains('.'))
                        .map(|i| (file_name(i), format!("DECOY{i}\n").into_bytes())),
                )
                .collect(),
            terminal: vec![],
            fs_read_faults: vec![],
            term_faults: vec![],
            unreadable: case
                .files
                .iter()
                .enumerate()
                .filter_map(|(i, f)| f.fault.map(|k| (format!("{}.tex", file_name(i)), k)))
                .collect(),
            fs_write_faults: vec![],
            file_updates: vec![],
            no_working_directory: false,
        },
        clock: Clock::default(),
        real_state: false,
    }
}

fn obs_key(o: &LineObs) -> (String, String) {
    let r = match &o.result {
        LineResult::Ok => "ok".to_string(),
        // Positions legitimately differ (file name / line number); kind and title must not.
        LineResult::Err(e) => format!("err:{}:{}", e.kind, e.title.replace("/sim/", "")),
        LineResult::Panic { location, message } => format!("panic:{}", panic_site(location, message)),
        LineResult::Budget => "budget".to_string(),
    };
    (o.out.clone(), r)
}

fn gen_inline(rng: &mut Rng) -> InlineCase {
    let nfiles = 1 + rng.below(6);
    let texts = [
        "A", "B ", " C", "D E", "{", "}", "F", "", "  ", "G%", "H\\relax ", "I\\iftrue ", "\\fi J",
        "\\count1=5 ", "K\\the\\count1 ", "L  ",
        // category-code changes made inside files must affect the rest of the caller's line
        // exactly as if the lines stood in place ('@' is never needed by the flatten rule itself)
        // (not 11: a control word directly followed by `@` has been tokenised before the file is
        // read, so making `@` a letter inside the file legitimately differs from lines in place)
        "\\global\\catcode64=12 ", "\\global\\catcode64=14 ", "\\global\\catcode64=12 ",
        "\\global\\catcode64=13 \\gdef@{<A>}",
        "@a", "b@", "@", "\\relax@c", "\\x@y ",
        // a byte-order mark and characters that only Unicode calls white space are ordinary
        // characters wherever they stand
        "\u{feff}M", "N\u{a0}", "O\u{b}", "\u{feff}",
    ];
    let gen_lines = |rng: &mut Rng, max_file: usize, allow_end: bool, nlines: usize| {
        let mut lines = vec![];
        for _ in 0..nlines {
            let np = rng.below(4);
            let mut l = vec![];
            for k in 0..np {
                let x = rng.below(100);
                if x < 25 && max_file > 0 {
                    let last = k + 1 == np;
                    let term = if last && rng.chance(1, 3) {
                        if rng.chance(1, 2) {
                            Term::ArgMacro
                        } else {
                            Term::Eol
                        }
                    } else {
                        [Term::Space, Term::Space, Term::Relax, Term::Ext, Term::Macro, Term::RelaxTight][rng.below(6)].clone()
                    };
                    l.push(Piece::Input {
                        file: rng.below(max_file),
                        term,
                    });
                } else if x < 33 && allow_end {
                    l.push(if rng.chance(1, 4) {
                        Piece::EndInputMacro
                    } else {
                        Piece::EndInput
                    });
                } else {
                    l.push(Piece::Text(texts[rng.below(texts.len())].to_string()));
                }
            }
            // A comment character swallows the rest of the line: nothing may follow it.
            if let Some(pos) = l.iter().position(|p| matches!(p, Piece::Text(t) if t.contains('%'))) {
                l.truncate(pos + 1);
            }
            // `@` may have been made a comment character by some file: same rule. (What follows a
            // possibly-swallowing `@` cannot be inlined soundly: an \endinput there may or may
            // not take effect.)
            if let Some(pos) = l.iter().position(|p| matches!(p, Piece::Text(t) if t.contains('@'))) {
                l.truncate(pos + 1);
            }
            // An `\input` terminated by end-of-line must be the last piece.
            if let Some(pos) = l.iter().position(|p| {
                matches!(
                    p,
                    Piece::Input {
                        term: Term::Eol | Term::ArgMacro,
                        ..
                    }
                )
            }) {
                l.truncate(pos + 1);
            }
            lines.push(l);
        }
        lines
    };
    // File i may only include files with a larger index: no cycles, depth <= nfiles.
    let mut files = vec![];
    for i in 0..nfiles {
        let later = nfiles - i - 1;
        let n = rng.below(5);
        let allow_end = rng.chance(1, 3);
        let mut lines = gen_lines(rng, later, allow_end, n);
        for l in lines.iter_mut() {
            for p in l.iter_mut() {
                if let Piece::Input { file, .. } = p {
                    *file += i + 1;
                }
            }
        }
        files.push(FileSpec {
            lines,
            final_newline: rng.chance(2, 3),
            missing: rng.chance(1, 12),
            fault: if rng.chance(1, 14) {
                Some([IoFault::Eio, IoFault::PermissionDenied, IoFault::InvalidData][rng.below(3)])
            } else {
                None
            },
        });
    }
    let nmain = 1 + rng.below(5);
    let allow_end_main = rng.chance(1, 4);
    let main = gen_lines(rng, nfiles, allow_end_main, nmain);
    InlineCase {
        main,
        files,
        hash_seed: rng.next_u64(),
    }
}

fn eval_inline(case: &InlineCase, ev: &mut Evaluation) {
    let original: Vec<String> = case.main.iter().map(|l| render_line(l)).collect();
    let tex = flatten_main(case, Sem::Tex);
    let k1 = flatten_main(case, Sem::K1);
    let sched = Schedule::reference(case.hash_seed);
    let a = run_job(&inline_job(case, original.clone()), &sched, false);
    let run_flat = |flat: &Vec<String>| run_job(&inline_job(case, flat.clone()), &sched, false);
    let b = run_flat(&tex);
    let mut log = String::new();
    for (i, l) in original.iter().enumerate() {
        log.push_str(&format!("main {i}: {l:?}\n"));
    }
    for (i, f) in case.files.iter().enumerate() {
        log.push_str(&format!("{}: {:?} missing={}\n", file_name(i), render_file(f), f.missing));
    }
    let keys = |t: &Trace| -> Vec<(String, String)> { t.execs.iter().map(|e| obs_key(&e.obs)).collect() };
    let (ka, kb) = (keys(&a), keys(&b));
    for (i, k) in ka.iter().enumerate() {
        log.push_str(&format!("orig L{i}: {:?} {}\n", k.0, k.1));
    }
    ev.add("comparisons", ka.len() as u64);
    ev.add("lines_executed", (ka.len() + kb.len()) as u64);
    let inputs: usize = case
        .main
        .iter()
        .chain(case.files.iter().flat_map(|f| f.lines.iter()))
        .flatten()
        .filter(|p| matches!(p, Piece::Input { .. }))
        .count();
    let has_end = case
        .main
        .iter()
        .chain(case.files.iter().flat_map(|f| f.lines.iter()))
        .flatten()
        .any(|p| matches!(p, Piece::EndInput | Piece::EndInputMacro));
    ev.nontrivial = tex != original;
    if tex != original {
        ev.bump("inline_cases_with_at_least_one_inlined_file");
    }
    ev.add("input_occurrences", inputs as u64);
    if has_end {
        ev.bump("reach.endinput_present");
    }
    for e in &a.execs {
        if let LineResult::Panic { location, message } = &e.obs.result {
            ev.violation = Some(Violation {
                class: format!("c19:panic:{}", panic_site(location, message)),
                detail: format!("line {} panicked at {location}: {message}", e.line),
            });
            break;
        }
        if let LineResult::Err(x) = &e.obs.result {
            if x.title.contains("could not read") {
                ev.bump("faults.input_of_missing_or_unreadable_file");
            }
        }
    }
    if ev.violation.is_none() && ka != kb {
        // Does the deviation model K1 explain the run exactly?
        let c = run_flat(&k1);
        let kc = keys(&c);
        ev.add("lines_executed", kc.len() as u64);
        if ka == kc && has_end {
            ev.known.push(K1.to_string());
        } else {
            let i = ka
                .iter()
                .zip(kb.iter())
                .position(|(x, y)| x != y)
                .unwrap_or(ka.len().min(kb.len()));
            ev.violation = Some(Violation {
                class: "c19:inline-equivalence".into(),
                detail: format!(
                    "main line {}: with files {:?}; with the lines in place {:?} (TeX rule) / {:?} (known deviation K1). original `{}` inlined `{}`",
                    i.saturating_sub(1),
                    ka.get(i),
                    kb.get(i),
                    kc.get(i),
                    original.get(i.saturating_sub(1)).cloned().unwrap_or_default(),
                    tex.get(i.saturating_sub(1)).cloned().unwrap_or_default(),
                ),
            });
        }
    }
    ev.log = log;
    ev.sample = serde_json::json!({
        "kind": "inline",
        "main": original,
        "files": case.files.iter().enumerate().map(|(i, f)| (file_name(i), render_file(f), f.missing)).collect::<Vec<_>>(),
        "inlined_tex_rule": tex,
        "unreadable": case.files.iter().enumerate().filter_map(|(i, f)| f.fault.map(|k| format!("{} {:?}", file_name(i), k))).collect::<Vec<_>>(),
        "out": ka,
    });
}

// ------------------------------------------------------------------ read streams

#[derive(Clone, Debug, Serialize, Deserialize, PartialEq, Eq)]
pub enum SOp {
    OpenIn { n: u8, file: usize },
    Read { n: i32, target: u8 },
    CloseIn { n: u8 },
    Begin,
    End,
    /// Toggle `!` between "other" and "comment".
    BangComment(bool),
    /// Interaction mode (0 errorstop, 1 scroll, 2 nonstop, 3 batch): the terminal cannot be read in
    /// the last two (TeX: "cannot \\read from terminal in nonstop modes"); not scoped by groups.
    Mode(u8),
    /// Environment event, not a TeX command: the file is replaced on disk before the (empty) line
    /// that stands for this op runs. Streams that are open keep what they opened; the next
    /// `\\openin` sees the new content.
    Rewrite { file: usize, content: String },
}

#[derive(Clone, Debug, Serialize, Deserialize)]
pub struct StreamCase {
    /// (content, missing, unreadable-with-this-error)
    pub files: Vec<(String, bool, Option<IoFault>)>,
    pub terminal: Vec<String>,
    pub ops: Vec<SOp>,
    pub term_faults: Vec<(u64, IoFault)>,
    pub schedule: Schedule,
}

const TARGETS: [&str; 4] = ["\\ra", "\\rb", "\\rc", "~"];

#[derive(Clone, Debug, PartialEq, Eq)]
enum Tok {
    Ch(char),
    Space,
    Begin,
    End,
    Par,
}

/// TeX's lexer restricted to the characters the stream files contain.
fn lex_line(line: &str, bang_comment: bool) -> Vec<Tok> {
    #[derive(PartialEq)]
    enum St {
        N,
        M,
        S,
    }
    let trimmed = line.trim_end_matches(' ');
    let mut st = St::N;
    let mut out = vec![];
    for c in trimmed.chars() {
        match c {
            '%' => return out,
            '!' if bang_comment => return out,
            // A carriage return (CRLF files) has category 5: it ends the line where it stands.
            '\r' => {
                match st {
                    St::N => out.push(Tok::Par),
                    St::M => out.push(Tok::Space),
                    St::S => {}
                }
                return out;
            }
            ' ' | '\t' => {
                if st == St::M {
                    out.push(Tok::Space);
                    st = St::S;
                }
            }
            '{' => {
                out.push(Tok::Begin);
                st = St::M;
            }
            '}' => {
                out.push(Tok::End);
                st = St::M;
            }
            c => {
                out.push(Tok::Ch(c));
                st = St::M;
            }
        }
    }
    match st {
        St::N => out.push(Tok::Par),
        St::M => out.push(Tok::Space),
        St::S => {}
    }
    out
}

fn content_lines(content: &str) -> Vec<String> {
    if content.is_empty() {
        return vec![];
    }
    let mut v: Vec<String> = content.split('\n').map(str::to_string).collect();
    if content.ends_with('\n') {
        v.pop();
    }
    v
}

#[derive(Clone, Debug, PartialEq, Eq)]
enum Body {
    Undefined,
    Unknown,
    Toks(Vec<Tok>),
}

#[derive(Clone, Debug)]
struct StreamModel {
    tex: bool, // true: TeX semantics; false: deviation K2
    streams: Vec<Option<(Vec<String>, usize)>>,
    targets: Vec<Vec<Body>>, // scoping stack per target
    term_cursor: usize,
    term_calls: u64,
    fs_reads: u64,
    bang: Vec<bool>,
    mode: u8,
    rewritten: BTreeMap<usize, String>,
}

struct Expect {
    err: bool,
    term_consumed: usize,
}

impl StreamModel {
    fn new(tex: bool) -> Self {
        StreamModel {
            tex,
            streams: vec![None; 16],
            targets: vec![vec![Body::Undefined]; TARGETS.len()],
            term_cursor: 0,
            term_calls: 0,
            fs_reads: 0,
            bang: vec![false],
            mode: 0,
            rewritten: BTreeMap::new(),
        }
    }
    fn lines_for(&self, content: &str) -> Vec<String> {
        let mut l = content_lines(content);
        if self.tex || l.is_empty() {
            l.push(String::new());
        }
        l
    }
    fn apply(&mut self, op: &SOp, case: &StreamCase) -> Expect {
        let mut ex = Expect {
            err: false,
            term_consumed: 0,
        };
        match op {
            SOp::OpenIn { n, file } => {
                self.fs_reads += 1;
                let (content, missing, fault) = &case.files[*file];
                // a replaced file exists (it may have been missing before) but stays unreadable
                // if reading its path fails
                let (content, missing) = match self.rewritten.get(file) {
                    Some(c) => (c, false),
                    None => (content, *missing),
                };
                self.streams[*n as usize] = if missing || fault.is_some() {
                    None
                } else {
                    Some((self.lines_for(content), 0))
                };
            }
            SOp::CloseIn { n } => self.streams[*n as usize] = None,
            SOp::Begin => {
                for t in self.targets.iter_mut() {
                    let top = t.last().unwrap().clone();
                    t.push(top);
                }
                let b = *self.bang.last().unwrap();
                self.bang.push(b);
            }
            SOp::End => {
                if self.bang.len() > 1 {
                    for t in self.targets.iter_mut() {
                        t.pop();
                    }
                    self.bang.pop();
                } else {
                    ex.err = true;
                }
            }
            SOp::BangComment(b) => *self.bang.last_mut().unwrap() = *b,
            SOp::Mode(m) => self.mode = *m,
            SOp::Rewrite { file, content } => {
                self.rewritten.insert(*file, content.clone());
            }
            SOp::Read { n, target } => {
                let bang = *self.bang.last().unwrap();
                let idx = if (0..16).contains(n) { Some(*n as usize) } else { None };
                let open = idx.map(|i| self.streams[i].is_some()).unwrap_or(false);
                let mut toks: Vec<Tok> = vec![];
                let mut depth = 0usize;
                let mut failed = false;
                if open {
                    let i = idx.unwrap();
                    loop {
                        let (lines, next) = self.streams[i].as_mut().unwrap();
                        if *next >= lines.len() {
                            // ran out of lines inside a group
                            self.streams[i] = None;
                            failed = true;
                            break;
                        }
                        let line = lines[*next].clone();
                        *next += 1;
                        let last = *next >= lines.len();
                        let mut aborted = false;
                        for t in lex_line(&line, bang) {
                            match t {
                                Tok::Begin => {
                                    depth += 1;
                                    toks.push(t);
                                }
                                Tok::End => {
                                    if depth == 0 {
                                        aborted = true;
                                        break;
                                    }
                                    depth -= 1;
                                    toks.push(t);
                                }
                                t => toks.push(t),
                            }
                        }
                        if last && (aborted || depth == 0) {
                            self.streams[i] = None;
                        }
                        if aborted || depth == 0 {
                            break;
                        }
                    }
                } else if self.mode >= 2 {
                    // the terminal is not consulted at all
                    failed = true;
                } else {
                    loop {
                        let fault = case.term_faults.iter().any(|(k, _)| *k == self.term_calls);
                        self.term_calls += 1;
                        if fault || self.term_cursor >= case.terminal.len() {
                            failed = true;
                            break;
                        }
                        let line = case.terminal[self.term_cursor].clone();
                        self.term_cursor += 1;
                        ex.term_consumed += 1;
                        let mut aborted = false;
                        for t in lex_line(&line, bang) {
                            match t {
                                Tok::Begin => {
                                    depth += 1;
                                    toks.push(t);
                                }
                                Tok::End => {
                                    if depth == 0 {
                                        aborted = true;
                                        break;
                                    }
                                    depth -= 1;
                                    toks.push(t);
                                }
                                t => toks.push(t),
                            }
                        }
                        if aborted || depth == 0 {
                            break;
                        }
                    }
                }
                let tgt = self.targets[*target as usize].last_mut().unwrap();
                if failed {
                    ex.err = true;
                    // TeX defines the target with what was read; texcraft leaves it alone: the
                    // statement does not say, so it is not judged until redefined.
                    *tgt = Body::Unknown;
                } else {
                    *tgt = Body::Toks(toks);
                }
            }
        }
        ex
    }

    fn eof_string(&self) -> String {
        self.streams
            .iter()
            .map(|s| if s.is_some() { 'N' } else { 'E' })
            .collect()
    }

    fn body_text(b: &Body) -> Option<String> {
        match b {
            Body::Toks(t) => Some(
                t.iter()
                    .map(|t| match t {
                        Tok::Ch(c) => c.to_string(),
                        Tok::Space => " ".to_string(),
                        Tok::Begin | Tok::End => String::new(),
                        Tok::Par => "<P>".to_string(),
                    })
                    .collect(),
            ),
            _ => None,
        }
    }
}

/// (name as written after `\\openin n=`, name on the simulated disk). Names without an extension
/// get `.tex`; the last two share their stem with the first and differ in the extension only.
const STREAM_FILES: [(&str, &str); 6] = [
    ("s0", "s0.tex"),
    ("s_1", "s_1.tex"),
    ("s.2.tex", "s.2.tex"),
    ("s$3", "s$3.tex"),
    ("s0.aux", "s0.aux"),
    ("s0.txt", "s0.txt"),
];

fn stream_file_disk(i: usize) -> String {
    STREAM_FILES[i % STREAM_FILES.len()].1.to_string()
}

fn stream_file_written(i: usize) -> String {
    STREAM_FILES[i % STREAM_FILES.len()].0.to_string()
}

fn sop_text(op: &SOp) -> String {
    match op {
        SOp::OpenIn { n, file } => format!("\\openin{n}={} ", stream_file_written(*file)),
        SOp::Read { n, target } => {
            let t = TARGETS[*target as usize];
            format!("\\read{n} to{t}")
        }
        SOp::CloseIn { n } => format!("\\closein{n} "),
        SOp::Begin => "{".to_string(),
        SOp::End => "}".to_string(),
        SOp::BangComment(b) => format!("\\catcode33={} ", if *b { 14 } else { 12 }),
        SOp::Mode(m) => ["\\errorstopmode ", "\\scrollmode ", "\\nonstopmode ", "\\batchmode "][*m as usize % 4].to_string(),
        SOp::Rewrite { .. } => "\\relax ".to_string(),
    }
}

fn eof_probe_line() -> String {
    let mut s = String::from("(");
    for n in 0..16 {
        s.push_str(&format!("\\ifeof{n} E\\else N\\fi"));
    }
    s.push_str(")%");
    s
}

fn target_probe_line(t: usize) -> String {
    match TARGETS[t] {
        "~" => "[~]%".to_string(),
        n => format!("[{n} ]%"),
    }
}

const STREAM_PREAMBLE: &str = "\\def\\par{<P>}%";

/// Lines of the job: preamble, then per op: the op line, the \ifeof probe line, one probe line per
/// target whose body is predictable.
fn stream_job(case: &StreamCase) -> (Job, Vec<(usize, usize)>) {
    // returns job and, per job line, (op index, kind) where kind 0 = op, 1 = eof probe, 2+t = target probe
    let mut lines = vec![STREAM_PREAMBLE.to_string()];
    let mut index = vec![(usize::MAX, 0)];
    let mut file_updates = vec![];
    for (i, op) in case.ops.iter().enumerate() {
        if let SOp::Rewrite { file, content } = op {
            file_updates.push((lines.len(), stream_file_disk(*file), content.clone().into_bytes()));
        }
        lines.push(format!("{}%", sop_text(op)));
        index.push((i, 0));
        lines.push(eof_probe_line());
        index.push((i, 1));
        if let SOp::Read { target, .. } = op {
            lines.push(target_probe_line(*target as usize));
            index.push((i, 2 + *target as usize));
        }
        if matches!(op, SOp::End) {
            for t in 0..TARGETS.len() {
                lines.push(target_probe_line(t));
                index.push((i, 2 + t));
            }
        }
    }
    let job = Job {
        lines,
        env: EnvSpec {
            files: case
                .files
                .iter()
                .enumerate()
                .filter(|(_, (_, m, _))| !*m)
                .map(|(i, (c, _, _))| (stream_file_disk(i), c.clone().into_bytes()))
                .chain(std::iter::once(("s.tex".to_string(), b"TRUNCATED\n".to_vec())))
                // decoys under the bare names (see the inline job)
                .chain([("s0".to_string(), b"DECOY\n".to_vec()), ("s_1".to_string(), b"DECOY\n".to_vec())])
                .collect(),
            terminal: case.terminal.clone(),
            fs_read_faults: vec![],
            term_faults: case.term_faults.clone(),
            unreadable: case
                .files
                .iter()
                .enumerate()
                .filter_map(|(i, (_, _, f))| f.map(|k| (stream_file_disk(i), k)))
                .collect(),
            fs_write_faults: vec![],
            file_updates,
            no_working_directory: false,
        },
        clock: Clock::default(),
        real_state: false,
    };
    (job, index)
}

/// What a model expects of each job line: Some((out, is_err, term_consumed)) or None = not judged.
fn stream_expectations(case: &StreamCase, tex: bool, index: &[(usize, usize)]) -> Vec<Option<(String, bool, usize)>> {
    let mut m = StreamModel::new(tex);
    let mut out: Vec<Option<(String, bool, usize)>> = vec![Some((String::new(), false, 0))];
    let mut li = 1;
    for (i, op) in case.ops.iter().enumerate() {
        let ex = m.apply(op, case);
        // op line
        out.push(Some((String::new(), ex.err, ex.term_consumed)));
        li += 1;
        // eof probe
        out.push(Some((format!("({})", m.eof_string()), false, 0)));
        li += 1;
        while li < index.len() && index[li].0 == i {
            let t = index[li].1 - 2;
            let b = m.targets[t].last().unwrap();
            out.push(match b {
                Body::Undefined => Some(("[".to_string(), true, 0)),
                Body::Unknown => None,
                b => Some((format!("[{}]", StreamModel::body_text(b).unwrap()), false, 0)),
            });
            li += 1;
        }
    }
    out
}

fn gen_streams(rng: &mut Rng, with_faults: bool) -> StreamCase {
    let vocab = [
        "a", "b c", "{d", "e}", "", "f%x", "  g  ", "{", "}", "h}i", "j{k}l", "m!n", " ", "{o{p}", "q}}r",
        "s}t{u", "}{", "v}{w}x", "{y}}{z", "a}b{c{d", "e{f}g}h{", "}}", "{{", "i }j{ k", "%}{", "l!}{",
        "m\r", "n o\r", "\r", "{p\r", "q}\rr", "s \r", "  \r",
        // Characters that Unicode calls white space but TeX does not: they are ordinary characters,
        // also at the end of a line (only spaces are removed there). A tab is a space *token* but
        // is not removed from the end of the line either.
        "t\u{b}", "u\u{a0}", "v\u{2003} ", "\u{3000}", "w\u{85}", "{x\u{a0}", "y}\u{b}", "\u{a0}z\u{2028}",
        "a\t", "\tb", "c \t", "{d\t}", "\t",
    ];
    // One to four files; one case in four has five or six, the extra ones sharing the stem of
    // the first (`s0.tex`, `s0.aux`, `s0.txt`).
    let nfiles = if rng.chance(1, 4) { 5 + rng.below(2) } else { 1 + rng.below(4) };
    let mut files = vec![];
    for _ in 0..nfiles {
        let n = rng.below(6);
        let mut s = String::new();
        for k in 0..n {
            s.push_str(vocab[rng.below(vocab.len())]);
            if k + 1 < n || rng.chance(2, 3) {
                s.push('\n');
            }
        }
        let fault = if rng.chance(1, 12) {
            Some([IoFault::Eio, IoFault::PermissionDenied, IoFault::InvalidData][rng.below(3)])
        } else {
            None
        };
        files.push((s, rng.chance(1, 10), fault));
    }
    // One case in eight has a long first file: 9 .. 65 lines (buffer seams, line tables and
    // counters beyond one digit / one nibble), mostly plain, with a few groups spanning lines.
    let mut long_lines = 0;
    if rng.chance(1, 8) {
        let n = [9usize, 10, 15, 16, 17, 31, 32, 33, 40, 64, 65][rng.below(11)];
        let mut s = String::new();
        let mut open = false;
        for k in 0..n {
            if !open && rng.chance(1, 9) && k + 2 < n {
                s.push_str(&format!("{{g{k}"));
                open = true;
            } else if open && rng.chance(1, 2) {
                s.push_str(&format!("h{k}}}"));
                open = false;
            } else if rng.chance(1, 10) {
                // an empty line
            } else {
                s.push_str(&format!("L{k}"));
            }
            if k + 1 < n || rng.chance(2, 3) {
                s.push('\n');
            }
        }
        files[0] = (s, false, None);
        long_lines = n;
    }
    let mut terminal = vec![];
    for i in 0..rng.below(8) {
        terminal.push(format!(
            "{}{}",
            ["t", "u v", "{w", "x}", "y}z", "", "a}b{c", "}{", "{d}e}f{"][rng.below(9)],
            i
        ));
    }
    // Usually a handful of stream numbers (so that they interleave densely); one run in five uses
    // all sixteen.
    let all16 = rng.chance(1, 5);
    let nstreams: Vec<u8> = if all16 {
        (0u8..16).collect()
    } else {
        vec![0u8, 1, 15, 7, 3]
    };
    let ns = if all16 {
        16
    } else if long_lines > 0 {
        // few streams, so that the long file is actually read to its end
        1 + rng.below(2)
    } else {
        1 + rng.below(nstreams.len())
    };
    let nops = 2 + rng.below(30) + long_lines + long_lines / 2;
    let mut ops = vec![];
    let mut depth = 0;
    for _ in 0..nops {
        let x = rng.below(100);
        let n = nstreams[rng.below(ns)];
        // with a long file: fewer re-opens, more reads
        let x = if long_lines > 0 && x < 22 && rng.chance(3, 4) { 40 } else { x };
        ops.push(if x < 22 {
            SOp::OpenIn {
                n,
                file: if long_lines > 0 && rng.chance(3, 4) { 0 } else { rng.below(nfiles) },
            }
        } else if x < 75 {
            let n = if rng.chance(1, 12) {
                *rng.pick(&[-1, 16, 99])
            } else {
                n as i32
            };
            SOp::Read {
                n,
                target: rng.below(TARGETS.len()) as u8,
            }
        } else if x < 83 {
            SOp::CloseIn { n }
        } else if x < 89 {
            depth += 1;
            SOp::Begin
        } else if x < 95 {
            if depth > 0 {
                depth -= 1;
                SOp::End
            } else {
                SOp::CloseIn { n }
            }
        } else {
            match rng.below(3) {
                0 => SOp::BangComment(rng.chance(1, 2)),
                1 => SOp::Mode(rng.below(4) as u8),
                _ => {
                    // the file is replaced by another draw from the same line vocabulary
                    let n = rng.below(5);
                    let mut c = String::new();
                    for k in 0..n {
                        c.push_str(vocab[rng.below(vocab.len())]);
                        if k + 1 < n || rng.chance(2, 3) {
                            c.push('\n');
                        }
                    }
                    SOp::Rewrite {
                        file: rng.below(nfiles),
                        content: c,
                    }
                }
            }
        });
    }
    let term_faults = if rng.chance(1, 10) {
        vec![(rng.below(5) as u64, [IoFault::Eio, IoFault::Interrupted][rng.below(2)])]
    } else {
        vec![]
    };
    let mut case = StreamCase {
        files,
        terminal,
        ops,
        term_faults,
        schedule: Schedule::reference(rng.next_u64()),
    };
    if with_faults {
        let (job, _) = stream_job(&case);
        let fc = gen::fault_cfg(rng);
        let hs = rng.next_u64();
        case.schedule = gen::gen_schedule(&fc, rng, job.lines.len(), hs);
    }
    case
}

fn eval_streams(case: &StreamCase, ev: &mut Evaluation) {
    let (job, index) = stream_job(case);
    let trace = run_job(&job, &case.schedule, true);
    let exp_tex = stream_expectations(case, true, &index);
    let exp_k2 = stream_expectations(case, false, &index);
    let mut log = String::new();
    for l in &job.lines {
        log.push_str(l);
        log.push('\n');
    }
    for e in &trace.events {
        log.push_str(e);
        log.push('\n');
    }
    add_fault_counters(ev, &trace.counts);
    if trace.harness_error.is_some() {
        ev.harness_error = trace.harness_error.clone();
    }
    if !trace.failures.is_empty() || trace.aborted.is_some() {
        ev.bump("not_judged_machinery_failure");
    }
    let check = |exp: &Vec<Option<(String, bool, usize)>>| -> Option<(usize, String)> {
        for ex in &trace.execs {
            let Some(Some((out, err, tc))) = exp.get(ex.line) else { continue };
            let is_err = matches!(ex.obs.result, LineResult::Err(_));
            if let LineResult::Panic { .. } | LineResult::Budget = ex.obs.result {
                return Some((ex.line, format!("line `{}`: {}", job.lines[ex.line], ex.obs.result.short())));
            }
            if ex.obs.out != *out || is_err != *err || ex.obs.term_lines_consumed != *tc {
                return Some((
                    ex.line,
                    format!(
                        "line {} `{}` (process {}, restore generation {}): model expects out={:?} error={} terminal-lines={}, VM gave out={:?} {} terminal-lines={}",
                        ex.line, job.lines[ex.line], ex.process, ex.generation, out, err, tc, ex.obs.out, ex.obs.result.short(), ex.obs.term_lines_consumed
                    ),
                ));
            }
        }
        None
    };
    let mut after_restore = 0u64;
    for ex in &trace.execs {
        log.push_str(&format!(
            "p{} g{} L{} out={:?} {} term={}\n",
            ex.process,
            ex.generation,
            ex.line,
            ex.obs.out,
            ex.obs.result.short(),
            ex.obs.term_lines_consumed
        ));
        if ex.generation > 0 {
            after_restore += 1;
        }
        if ex.obs.term_lines_consumed > 0 {
            ev.bump("reach.read_from_terminal");
        }
        if let LineResult::Panic { location, message } = &ex.obs.result {
            if ev.violation.is_none() {
                ev.violation = Some(Violation {
                    class: format!("c19:panic:{}", panic_site(location, message)),
                    detail: format!("line `{}` panicked at {location}: {message}", job.lines[ex.line]),
                });
            }
        }
    }
    ev.add("comparisons", trace.execs.len() as u64);
    ev.add("lines_executed", trace.execs.len() as u64);
    ev.add("comparisons_after_restore", after_restore);
    // State feature vectors: the \\ifeof vector (which streams are open) as the VM reported it.
    for ex in &trace.execs {
        if ex.obs.out.starts_with('(') && ex.obs.out.len() == 18 {
            let open = ex.obs.out.chars().filter(|c| *c == 'N').count();
            ev.states.insert(format!("open_streams={open} after_restore={}", ex.generation > 0));
        }
    }
    let reads = case.ops.iter().filter(|o| matches!(o, SOp::Read { .. })).count();
    let opens = case.ops.iter().filter(|o| matches!(o, SOp::OpenIn { .. })).count();
    ev.add("stream_reads", reads as u64);
    ev.add("stream_opens", opens as u64);
    ev.add(
        "faults.unreadable_or_missing_files_in_case",
        case.files.iter().filter(|f| f.1 || f.2.is_some()).count() as u64,
    );
    ev.add("faults.terminal_failure_planned", case.term_faults.len() as u64);
    ev.add(
        "faults.file_replaced_between_operations",
        case.ops.iter().filter(|o| matches!(o, SOp::Rewrite { .. })).count() as u64,
    );
    ev.add(
        "faults.interaction_mode_switched",
        case.ops.iter().filter(|o| matches!(o, SOp::Mode(_))).count() as u64,
    );
    ev.nontrivial = reads > 0 && opens > 0;
    if ev.violation.is_none() && trace.failures.is_empty() && trace.aborted.is_none() {
        if let Some((_, d_tex)) = check(&exp_tex) {
            match check(&exp_k2) {
                None => ev.known.push(K2.to_string()),
                Some((_, d_k2)) => {
                    ev.violation = Some(Violation {
                        class: "c19:read-stream-model".into(),
                        detail: format!("vs TeX model: {d_tex} || vs known deviation K2: {d_k2}"),
                    })
                }
            }
        }
    }
    ev.log = log;
    ev.sample = serde_json::json!({
        "kind": "streams",
        "program_as_tex": job.lines,
        "files": case.files,
        "terminal": case.terminal,
        "term_faults": format!("{:?}", case.term_faults),
        "fault_schedule": format!("{:?}", case.schedule.steps),
        "per_line": trace.execs.iter().map(|e| format!("p{} L{} {:?} {}", e.process, e.line, e.obs.out, e.obs.result.short())).collect::<Vec<_>>(),
    });
}

// ------------------------------------------------------------------ limit

#[derive(Clone, Debug, Serialize, Deserialize)]
pub struct LimitCase {
    /// None: a self-including file; Some(n): a chain of n distinct files.
    pub chain: Option<usize>,
    pub hash_seed: u64,
    /// How the `\\input` stands in its file: 0 followed by more material on the line, 1 last on
    /// the last line (the name is ended by the line end), 2 last in a file without final newline
    /// (the name is ended by the end of the file: the parent is used up when the child starts).
    #[serde(default)]
    pub shape: u8,
}

fn eval_limit(case: &LimitCase, ev: &mut Evaluation) {
    let mut files = vec![];
    let main;
    match case.chain {
        None => {
            let tail = ["\\input rec \n", "\\input rec\n", "\\input rec"][case.shape as usize % 3];
            files.push(("rec.tex".to_string(), format!("\\advance\\count50 by 1 {tail}").into_bytes()));
            main = "\\input rec ".to_string();
        }
        Some(n) => {
            for i in 0..n {
                let body = if i + 1 < n {
                    let tail = [" %\n", "\n", ""][case.shape as usize % 3];
                    format!("\\advance\\count50 by 1 \\input c{}{tail}", i + 1)
                } else {
                    "\\advance\\count50 by 1 END%\n".to_string()
                };
                files.push((format!("c{i}.tex"), body.into_bytes()));
            }
            main = "\\input c0 ;%".to_string();
        }
    }
    let job = Job {
        lines: vec![main, "\\the\\count50;%".to_string()],
        env: EnvSpec {
            files,
            ..Default::default()
        },
        clock: Clock::default(),
        real_state: false,
    };
    let trace = run_job(&job, &Schedule::reference(case.hash_seed), false);
    let first = &trace.execs[0].obs;
    let depth: i64 = trace.execs[1].obs.out.trim_end_matches(';').parse().unwrap_or(-1);
    ev.add("comparisons", 2);
    ev.add("lines_executed", 2);
    ev.nontrivial = true;
    ev.log = format!("{:?} -> {} depth {}\n", case.chain, first.result.short(), depth);
    let fail = |d: String| Some(Violation {
        class: "c19:input-limit".into(),
        detail: d,
    });
    match (&first.result, case.chain) {
        (LineResult::Panic { location, message }, _) => {
            ev.violation = Some(Violation {
                class: format!("c19:panic:{}", panic_site(location, message)),
                detail: format!("\\input nesting panicked at {location}: {message}"),
            })
        }
        (LineResult::Err(e), None) => {
            ev.bump("reach.input_limit_error");
            // Any structured error is accepted (the wording may change); what is checked is that
            // the nesting stopped at the documented depth.
            if !(98..=102).contains(&depth) {
                ev.violation = fail(format!("self-including file reached depth {depth}, documented limit is 100"));
            }
        }
        (r, None) => ev.violation = fail(format!("self-including file ended with {}", r.short())),
        (LineResult::Ok, Some(n)) => {
            ev.bump("reach.input_chain_succeeded");
            if n > 100 {
                ev.violation = fail(format!("a chain of {n} nested files succeeded; documented limit is 100"));
            } else if depth != n as i64 || !first.out.contains("END") {
                ev.violation = fail(format!("chain of {n}: depth counter {depth}, out {:?}", first.out));
            }
        }
        (LineResult::Err(e), Some(n)) => {
            // The documented limit is 100 input levels; the main input is one of them, so 99
            // nested files must work. (Whether exactly 100 files work is left open: it depends on
            // whether the main input counts, which the statement does not fix.)
            if n <= 99 {
                ev.violation = fail(format!("a chain of {n} nested files failed with `{}` at depth {depth}", e.title));
            } else if n >= 103 && !(98..=102).contains(&depth) {
                ev.violation = fail(format!("chain of {n} failed with `{}` at depth {depth}", e.title));
            } else {
                ev.bump("reach.input_limit_error");
            }
        }
        (r, Some(n)) => ev.violation = fail(format!("chain of {n}: {}", r.short())),
    }
    ev.sample = serde_json::json!({"kind": "limit", "chain": case.chain, "result": first.result.short(), "depth": depth});
}

// ------------------------------------------------------------------ property

#[derive(Clone, Debug, Serialize, Deserialize)]
pub enum Case {
    Inline(InlineCase),
    Streams(StreamCase),
    Limit(LimitCase),
}

pub struct C19;

impl Property for C19 {
    type Case = Case;
    fn id(&self) -> &'static str {
        "C19"
    }
    fn runs(&self, tier: Tier) -> u64 {
        match tier {
            Tier::Quick => 60_000,
            Tier::Thorough => 1_500_000,
        }
    }
    fn generate(&self, run_seed: u64, run_index: u64) -> Case {
        let mut rng = Rng::split(run_seed, 1);
        match run_index % 16 {
            15 => Case::Limit(LimitCase {
                chain: if rng.chance(1, 4) {
                    None
                } else if rng.chance(1, 2) {
                    // around the boundary: 100 levels = the main input + 99 files
                    Some(95 + rng.below(12))
                } else if rng.chance(3, 4) {
                    Some(1 + rng.below(99))
                } else {
                    Some(101 + rng.below(20))
                },
                hash_seed: rng.next_u64(),
                shape: rng.below(3) as u8,
            }),
            x if x % 2 == 0 => Case::Inline(gen_inline(&mut rng)),
            x => Case::Streams(gen_streams(&mut rng, x % 4 == 3)),
        }
    }
    fn evaluate(&self, case: &Case) -> Evaluation {
        let mut ev = Evaluation::default();
        match case {
            Case::Inline(c) => {
                ev.bump("cases_inline");
                eval_inline(c, &mut ev)
            }
            Case::Streams(c) => {
                ev.bump("cases_streams");
                if c.schedule.fault_count() > 0 {
                    ev.bump("cases_streams_with_crash_restart");
                }
                eval_streams(c, &mut ev)
            }
            Case::Limit(c) => {
                ev.bump("cases_limit");
                eval_limit(c, &mut ev)
            }
        }
        ev
    }
    fn shrink(&self, case: &Case) -> Vec<Case> {
        let mut out = vec![];
        match case {
            Case::Inline(c) => {
                for i in 0..c.main.len() {
                    if c.main.len() > 1 {
                        let mut n = c.clone();
                        n.main.remove(i);
                        out.push(Case::Inline(n));
                    }
                    for j in 0..c.main[i].len() {
                        let mut n = c.clone();
                        n.main[i].remove(j);
                        out.push(Case::Inline(n));
                    }
                }
                for (fi, f) in c.files.iter().enumerate() {
                    for i in 0..f.lines.len() {
                        let mut n = c.clone();
                        n.files[fi].lines.remove(i);
                        out.push(Case::Inline(n));
                        for j in 0..f.lines[i].len() {
                            let mut n = c.clone();
                            n.files[fi].lines[i].remove(j);
                            out.push(Case::Inline(n));
                        }
                    }
                }
            }
            Case::Streams(c) => {
                if !c.schedule.steps.is_empty() {
                    let mut n = c.clone();
                    n.schedule.steps.clear();
                    out.push(Case::Streams(n));
                }
                let nops = c.ops.len();
                let mut chunk = nops / 2;
                while chunk >= 1 {
                    let mut s = 0;
                    while s < nops {
                        let mut n = c.clone();
                        n.ops.drain(s..(s + chunk).min(nops));
                        // Begin/End balance may break; the model handles an unmatched End as an error line.
                        out.push(Case::Streams(n));
                        s += chunk;
                    }
                    if chunk == 1 {
                        break;
                    }
                    chunk /= 2;
                }
                for si in 0..c.schedule.steps.len() {
                    let mut n = c.clone();
                    n.schedule.steps.remove(si);
                    out.push(Case::Streams(n));
                }
                for fi in 0..c.files.len() {
                    let lines: Vec<&str> = c.files[fi].0.split('\n').collect();
                    for li in 0..lines.len() {
                        let mut l = lines.clone();
                        l.remove(li);
                        let mut n = c.clone();
                        n.files[fi].0 = l.join("\n");
                        out.push(Case::Streams(n));
                    }
                }
                if !c.term_faults.is_empty() {
                    let mut n = c.clone();
                    n.term_faults.clear();
                    out.push(Case::Streams(n));
                }
            }
            Case::Limit(_) => {}
        }
        out
    }
    fn rule(&self) -> String {
        "Three case kinds per 16 runs: 8 inline, 7 streams (every other one under a crash/checkpoint/restore schedule), 1 limit. Inline: 1-6 files forming a DAG (depth <= 6, with/without final newline, empty files, files ending inside a group or a taken conditional, comment-terminated and blank lines, missing files, unreadable files at the k-th open), \\input at any position of a line terminated by space / \\relax / end of line / with extension, \\endinput at any position; the program is executed with the files and again with the files' lines standing in place under TeX's rule; per main line, token output and error kind/title must agree. Streams: 1-6 files (0-5 lines over a 46-entry vocabulary with braces spanning lines, unmatched braces, blanks, tabs, CR/CRLF, comments and characters that only Unicode calls white space; one case in eight has a 9-65-line file; one in four has files that share a stem and differ in the extension), 2-31 (+1.5 x long-file lines) ops among \\openin / \\read (to control sequences and an active character, stream numbers incl. -1, 16, 99) / \\closein / { / } / a catcode toggle / an interaction-mode switch (the terminal cannot be read in nonstop and batch mode) / a file replaced on disk between two operations (open streams keep what they opened), 0-7 terminal lines, injected open failures and terminal EIO/EINTR; after every op the \\ifeof vector of all 16 streams, the number of terminal lines consumed and the body of the target are compared with an independent line-level model of TeX's \\read. Limit: a self-including file must end in a structured error at depth 98..102 and chains of <= 99 files must succeed, in three shapes each (the \\input followed by more material; last on the last line; last in a file without final newline). Non-trivial = (inline) at least one file was really inlined; (streams) at least one \\openin and one \\read; (limit) always. Distinct = distinct FNV hash of the serialised case.".into()
    }
    fn assumptions(&self) -> Vec<String> {
        vec![
            "Inline equivalence is metamorphic: both programs run on the same VM, so a defect that affects both identically is invisible to it.".into(),
            "The read-stream model is written from tex.web 483-486 (no TeX binary in the sandbox) and kept to plain characters, blanks, braces and comments.".into(),
            "Known deviations K1 and K2 are evaluated through deviation models: a run is attributed to a finding only if the deviation model explains every observable of the run.".into(),
            "Prompt text is recorded but not judged; \\global\\read is not generated (rejected by texcraft's prefix table, outside the statement).".into(),
        ]
    }
    fn components(&self) -> serde_json::Value {
        components_json()
    }
}
