//! Workloads are operation lists, not text. Each op knows (through the scoping model) how to print
//! itself as TeX and how it changes the reference model, so a replay file does not depend on the
//! generator or the PRNG, and the minimiser can drop ops while expectations stay consistent.

use serde::{Deserialize, Serialize};

/// A definable name: a control sequence `\n<letter>` or an active character.
#[derive(Clone, Copy, Debug, PartialEq, Eq, PartialOrd, Ord, Serialize, Deserialize)]
pub enum Target {
    Cs(u8),
    Active(u8),
}

pub const ACTIVE_CHARS: [char; 2] = ['~', '|'];

impl Target {
    pub fn tex(self) -> String {
        match self {
            Target::Cs(i) => format!("\\n{}", (b'a' + i) as char),
            Target::Active(i) => ACTIVE_CHARS[i as usize].to_string(),
        }
    }
    /// Text for *using* the name where a following letter must not be absorbed.
    pub fn tex_use(self) -> String {
        match self {
            Target::Cs(_) => format!("{} ", self.tex()),
            Target::Active(_) => self.tex(),
        }
    }
}

#[derive(Clone, Copy, Debug, PartialEq, Eq, PartialOrd, Ord, Serialize, Deserialize)]
pub enum RegKind {
    Count,
    Dimen,
    Skip,
    Toks,
}

impl RegKind {
    pub fn cmd(self) -> &'static str {
        match self {
            RegKind::Count => "\\count",
            RegKind::Dimen => "\\dimen",
            RegKind::Skip => "\\skip",
            RegKind::Toks => "\\toks",
        }
    }
    pub fn max_index(self) -> u16 {
        match self {
            RegKind::Toks => 255,
            _ => 32767,
        }
    }
}

#[derive(Clone, Copy, Debug, PartialEq, Eq, PartialOrd, Ord, Serialize, Deserialize)]
pub enum Param {
    EndLineChar,
    GlobalDefs,
    TracingMacros,
    Year,
    Day,
}

impl Param {
    pub fn cmd(self) -> &'static str {
        match self {
            Param::EndLineChar => "\\endlinechar",
            Param::GlobalDefs => "\\globaldefs",
            Param::TracingMacros => "\\tracingmacros",
            Param::Year => "\\year",
            Param::Day => "\\day",
        }
    }
}

/// Primitives a name can be `\let` to (chosen to be observable and harmless).
pub const LET_PRIMS: [&str; 2] = ["relax", "the"];

#[derive(Clone, Debug, PartialEq, Eq, Serialize, Deserialize)]
pub enum Op {
    Begin,
    End,
    /// `[\global]\count<i>=<v> ` etc. For Skip, `w` is the stretch component.
    SetReg {
        g: bool,
        kind: RegKind,
        idx: u16,
        v: i32,
        w: i32,
    },
    /// `\scrollmode\global\divide\count<i> by 0 \errorstopmode `: a prefixed assignment that fails
    /// with a recoverable error (recovered, because the mode is not errorstop for its duration).
    /// Nothing is assigned, and the `\global` must not stay pending.
    FailedGlobalArith {
        idx: u16,
        mul: bool,
    },
    /// `[\global]\<kind><to>=\<kind><from> `: one register assigned from another of its kind.
    CopyReg {
        g: bool,
        kind: RegKind,
        from: u16,
        to: u16,
    },
    /// Assignment through a `\countdef`/`\toksdef` alias; a no-op if the name is not such an alias.
    SetViaAlias {
        g: bool,
        t: Target,
        v: i32,
    },
    /// `[\global]\advance\count<i> by <d> `
    Advance {
        g: bool,
        idx: u16,
        d: i32,
    },
    /// `[\global]\multiply\count<i> by <k> ` or `\divide`; a no-op if the result would overflow or k = 0.
    Scale {
        g: bool,
        idx: u16,
        mul: bool,
        k: i32,
    },
    /// `\advance` through an alias; a no-op if the name is not a count alias.
    AdvanceViaAlias {
        g: bool,
        t: Target,
        d: i32,
    },
    SetParam {
        g: bool,
        p: Param,
        v: i32,
    },
    SetCat {
        g: bool,
        ch: u32,
        v: u8,
    },
    /// `[\global]\def` or `\gdef` with a unique body id.
    Def {
        g: bool,
        gdef: bool,
        t: Target,
        body: u32,
    },
    /// `\let t = src` (copies the current meaning; a no-op when src is undefined).
    LetCs {
        g: bool,
        t: Target,
        src: Target,
    },
    LetChar {
        g: bool,
        t: Target,
        c: char,
    },
    /// `[\global]\let t = \nzundefined` (a name that is never defined). What `t` means afterwards
    /// is not judged (TeX makes it undefined, texcraft leaves it unchanged - outside the statement),
    /// but the `\global` must be consumed by this assignment and by no other.
    LetUndefined {
        g: bool,
        t: Target,
    },
    LetPrim {
        g: bool,
        t: Target,
        prim: u8,
    },
    LetFont {
        g: bool,
        t: Target,
        font: u8,
    },
    /// `\newInt<target> `: the name becomes, locally, a fresh integer variable (value 0). Skipped
    /// while `\globaldefs` is non-zero (the command always defines locally; what it should do under
    /// `\globaldefs` is not stated anywhere).
    NewInt {
        t: Target,
        id: u16,
    },
    CountDef {
        g: bool,
        t: Target,
        idx: u16,
    },
    ToksDef {
        g: bool,
        t: Target,
        idx: u16,
    },
    CharDef {
        t: Target,
        n: u8,
    },
    /// Font selector `\fontA`..`\fontC` (font ids 1..3).
    Font {
        g: bool,
        font: u8,
    },
    ReadReg {
        kind: RegKind,
        idx: u16,
    },
    ReadParam {
        p: Param,
    },
    ReadCat {
        ch: u32,
    },
    /// Observe the meaning of a name in the way its (model) meaning allows.
    Probe {
        t: Target,
    },
    /// Opaque TeX text (differential workloads only; the scoping model ignores it).
    Raw(String),
    /// A whole line of opaque text; no `%` is appended, so the end-of-line character is observable.
    RawLine(String),
}

#[derive(Clone, Debug, Default, PartialEq, Eq, Serialize, Deserialize)]
pub struct Program {
    pub lines: Vec<Vec<Op>>,
}

impl Program {
    pub fn op_count(&self) -> usize {
        self.lines.iter().map(Vec::len).sum()
    }
}
