//! C09 — interpreter totality, scoped to what a simulator owns: does any EOF, damage, missing
//! resource, terminal failure or interaction-mode switch, landing at any instant of an otherwise
//! well-formed (or token-soup) workload, turn into a panic, an unlocated error, an error that
//! cannot be rendered, or an inconsistent execution stack?

use serde::{Deserialize, Serialize};

use crate::c01::{components_json, panic_site};
use crate::c08;
use crate::check::*;
use crate::driver::*;
use crate::job::*;
use crate::rng::Rng;
use crate::state::IoFault;

#[derive(Clone, Debug, Serialize, Deserialize)]
pub struct Case {
    pub lines: Vec<String>,
    pub env: EnvSpec,
    pub hash_seed: u64,
    /// Damage applied to the job at rest, as text (statistics and the replay reader only).
    pub damage: Vec<String>,
}

pub struct C09 {
    /// Panic sites listed in known_findings.json with mechanism "avoid-rule": the generator does
    /// not emit their documented trigger (see `avoid`).
    pub avoid: Vec<String>,
}

impl C09 {
    pub fn new() -> C09 {
        let kf = load_known_findings();
        C09 {
            avoid: kf
                .findings
                .iter()
                .filter(|f| f.property == "C09")
                .map(|f| f.id.clone())
                .collect(),
        }
    }
}

const NUMBERS: [&str; 34] = [
    "0", "1", "-1", "15", "16", "127", "128", "255", "256", "32767", "32768", "65535", "65536",
    "2147483647", "2147483648", "-2147483647", "-2147483648", "4294967296", "1114110", "1114111",
    "1114112", "55295", "55296", "57343", "57344", "\"7FFFFFFF", "\"80000000", "'17777777777",
    "`a", "`\\a", "`\\^^M", "--5", "+-+7", "99999999999999999999",
];
const DIMENS: [&str; 16] = [
    "1pt", "0pt", "-1pt", "16383pt", "16383.99999pt", "16384pt", "-16384pt", "1sp", "1073741823sp",
    "1073741824sp", "1truein", "1em", "1ex", "1fil", ".5pt", "1.pt",
];
const MISC: [&str; 30] = [
    "{", "}", "#", "$", "&", "^", "_", "~", "=", " ", "%", "plus", "minus", "by", "to", "a", "Z",
    "é", "€", "\u{1D518}", "^^M", "^^?", "^^@", "^^", "\\", "\\ ", "\\\\", "\u{7f}", "|", "\\par",
];

fn vocabulary() -> Vec<String> {
    let mut v: Vec<String> = crate::state::sim_built_ins()
        .keys()
        .filter(|k| k.chars().all(|c| c.is_ascii_alphabetic()))
        // allocation size is an argument: a damaged number after it could ask for gigabytes and
        // an allocation failure aborts the process instead of unwinding
        .filter(|k| **k != "newIntArray")
        .map(|k| format!("\\{k}"))
        .collect();
    v.sort();
    for n in ["\\na", "\\nb", "\\xa", "\\xb", "\\undefined"] {
        v.push(n.to_string());
    }
    v
}

/// Numbers and dimensions of arbitrary length: 1-40 integer digits (decimal, octal or hex),
/// 0-40 fraction digits, a unit.
fn long_number(rng: &mut Rng, dimension: bool) -> String {
    let mut s = String::new();
    if rng.chance(1, 4) {
        s.push('-');
    }
    let radix = if dimension { 0 } else { rng.below(4) };
    let digits: &[u8] = match radix {
        1 => {
            s.push('\'');
            b"01234567"
        }
        2 => {
            s.push('"');
            b"0123456789ABCDEF"
        }
        _ => b"0123456789",
    };
    let n = [0usize, 1, 2, 9, 10, 11, 16, 17, 18, 19, 20, 40][rng.below(12)];
    let lead_zeros = rng.chance(1, 3);
    for k in 0..n {
        let d = if lead_zeros && k + 3 < n { b'0' } else { digits[rng.below(digits.len())] };
        s.push(d as char);
    }
    if dimension || rng.chance(1, 5) {
        let f = [0usize, 1, 5, 16, 17, 18, 19, 20, 33, 40][rng.below(10)];
        if f > 0 || n == 0 {
            s.push(if rng.chance(1, 6) { ',' } else { '.' });
            let small = rng.chance(1, 2);
            for k in 0..f {
                let d = if small && k + 1 < f { b'0' } else { digits[rng.below(10.min(digits.len()))] };
                s.push(d as char);
            }
        }
        if dimension {
            s.push_str(["pt", "sp", "fil", "em", "truein", "bp", "cc", "dd", "mm", "in", "pc", "cm", "fill", "filll", "ex"][rng.below(15)]);
        }
    }
    s
}

/// Characters from every corner of Unicode: all kinds of blanks (no-break, em, ideographic, line
/// and paragraph separators, NEL, BOM, zero width), combining marks, CJK, right-to-left, astral,
/// private use, the last code points before and after the surrogate gap, U+FFFD, U+10FFFF.
fn unicode_char(rng: &mut Rng) -> char {
    const POOL: [u32; 40] = [
        0x00A0, 0x2003, 0x3000, 0x2028, 0x2029, 0x0085, 0xFEFF, 0x200B, 0x1680, 0x202F, 0x205F, 0x2000,
        0x0301, 0x20DD, 0x65E5, 0x672C, 0x8A9E, 0x30C6, 0x05D0, 0x0627, 0x1F600, 0x1D518, 0xE000, 0xF8FF,
        0xD7FF, 0xE001, 0xFFFD, 0xFFFF, 0x10FFFF, 0x10000, 0x00E9, 0x00DF, 0x20AC, 0x0100, 0x07FF, 0x0800,
        0x7F, 0x80, 0x9F, 0xAD,
    ];
    char::from_u32(POOL[rng.below(POOL.len())]).unwrap_or('?')
}

fn soup_line(rng: &mut Rng, vocab: &[String]) -> String {
    let n = 1 + rng.below(8);
    let mut s = String::new();
    for _ in 0..n {
        let x = rng.below(100);
        let t: String = if x < 45 {
            vocab[rng.below(vocab.len())].clone()
        } else if x < 62 {
            NUMBERS[rng.below(NUMBERS.len())].to_string()
        } else if x < 65 {
            long_number(rng, false)
        } else if x < 72 {
            DIMENS[rng.below(DIMENS.len())].to_string()
        } else if x < 75 {
            long_number(rng, true)
        } else if x < 95 {
            MISC[rng.below(MISC.len())].to_string()
        } else {
            let mut u = String::new();
            for _ in 0..(1 + rng.below(3)) {
                u.push(unicode_char(rng));
            }
            u
        };
        s.push_str(&t);
        if rng.chance(2, 3) {
            s.push(' ');
        }
    }
    s
}

/// Targeted templates: primitives applied to boundary arguments.
/// File names as they are written after \\input and \\openin: plain, missing, with file areas
/// (`:` and `>` end an area in TeX), with dots before, after and between the area delimiters,
/// empty, only delimiters, non-ASCII.
const FILE_NAMES: [&str; 24] = [
    "fa", "nosuch", "a:b", "a>b", ".", "", "fa.tex.tex", "\u{e9}", "v1.2:notes", "../dir:file", "old.d>main", "a.b:c.d", ":", ">",
    ".:", "a.>", "a:.b", "x.y.z", "a>b.c:d", "..", "a:", ">b", "fa.", "\u{1d538}.\u{e9}:\u{3bb}",
];

/// Files that input themselves: (zs.tex, zt.tex or "", judged). In the judged shapes the name is
/// followed by a token that does not vanish (the space the line end turns into, an explicit
/// blank, another token), so TeX nests one level per round and stops at its limit. In the shape
/// that is not judged the name is followed by `\\fi` and the end of the file: a control word
/// swallows the line end, the file is used up and closed while the name is still being scanned,
/// and the recursion never nests - which does not terminate in TeX either.
const SELF_INPUT_SHAPES: [(&str, &str, bool); 9] = [
    ("\\input zs", "", true),
    ("\\input zs\n", "", true),
    ("x\\input zs ", "", true),
    ("\\input zs \\relax\n", "", true),
    ("{\\input zs", "", true),
    ("\\input zt", "\\input zs", true),
    ("\\input zt\n", "y\\input zs\n", true),
    ("\\iftrue\\input zs\\fi", "", false),
    ("\\input zs\\input zs", "", true),
];
const SELF_INPUT_USERS: [&str; 3] = ["\\input zs", "\\input zs ", "a\\input zs b"];

fn template_line(rng: &mut Rng, vocab: &[String]) -> String {
    let num = |rng: &mut Rng| {
        if rng.chance(1, 6) {
            long_number(rng, false)
        } else {
            NUMBERS[rng.below(NUMBERS.len())].to_string()
        }
    };
    let dim = |rng: &mut Rng| {
        if rng.chance(1, 4) {
            long_number(rng, true)
        } else {
            DIMENS[rng.below(DIMENS.len())].to_string()
        }
    };
    let cs = |rng: &mut Rng| vocab[rng.below(vocab.len())].clone();
    match rng.below(53) {
        50..=52 => param_sweep(rng, vocab),
        49 => hidden_name(rng),
        47 | 48 => deep_nesting(rng),
        41..=43 => wide_layout(rng),
        44..=46 => line_start(rng, vocab),
        0 => format!("\\count{}={} ", num(rng), num(rng)),
        1 => format!("\\catcode{}={} ", num(rng), num(rng)),
        2 => format!("\\dimen{}={} ", num(rng), dim(rng)),
        3 => format!("\\skip{}={} plus {} minus {} ", num(rng), dim(rng), dim(rng), dim(rng)),
        4 => format!("\\the{} ", cs(rng)),
        5 => format!("\\count1={} \\dimen0=\\count1 sp \\the\\dimen0 ", num(rng)),
        6 => format!("\\count1={} \\advance\\count1 by {} \\multiply\\count1 by {} \\divide\\count1 by {} ", num(rng), num(rng), num(rng), num(rng)),
        7 => format!("\\chardef\\xa={} \\xa \\the\\xa ", num(rng)),
        8 => format!("\\mathchardef\\xa={} \\the\\xa ", num(rng)),
        9 => format!("\\countdef\\xa={} \\xa={} ", num(rng), num(rng)),
        10 => format!("\\toksdef\\xa={} \\xa={{a}} ", num(rng)),
        11 => {
            let k = if rng.chance(1, 2) { 1 } else { FILE_NAMES.len() };
            let name = FILE_NAMES[rng.below(k)];
            format!("\\openin{}={name} \\read{} to\\xa \\closein{} ", num(rng), num(rng), num(rng))
        }
        12 => format!("\\ifnum{}<{} a\\else b\\fi ", num(rng), num(rng)),
        13 => format!("\\ifcase{} a\\or b\\else c\\fi ", num(rng)),
        14 => format!("\\ifodd{} a\\fi \\ifeof{} b\\fi ", num(rng), num(rng)),
        15 => format!("\\endlinechar={} \\globaldefs={} ", num(rng), num(rng)),
        16 => format!("\\let{}={} ", cs(rng), cs(rng)),
        17 => format!("\\def{}#1#{}{{#1}} ", cs(rng), rng.below(10)),
        18 => format!("\\global{} ", cs(rng)),
        19 => format!("\\expandafter{}{} ", cs(rng), cs(rng)),
        20 => format!("\\input {} ", FILE_NAMES[rng.below(FILE_NAMES.len())]),
        21 => format!("\\mathcode{}={} \\the\\mathcode{} ", num(rng), num(rng), num(rng)),
        22 => format!("\\dimen0={} \\multiply\\dimen0 by {} \\the\\dimen0 ", dim(rng), num(rng)),
        23 => format!("é\\count{}=x ", num(rng)),
        // Multi-step sequences that walk a register to a limit and then use it everywhere a
        // number, dimension or glue can be scanned.
        24 => {
            let setup = [
                "\\count1=-2147483647 \\advance\\count1 by -1 ",
                "\\count1=2147483647 ",
                "\\count1=-2147483647 ",
                "\\count1=1073741824 \\multiply\\count1 by 2 ",
                "\\count1=-1073741824 \\multiply\\count1 by 2 ",
                "\\dimen1=16383.99999pt \\advance\\dimen1 by \\dimen1 ",
                "\\dimen1=-16383.99999pt \\advance\\dimen1 by \\dimen1 \\advance\\dimen1 by -1sp \\advance\\dimen1 by -1sp ",
                "\\skip1=16383.99999pt plus 16383.99999fil minus 16383.99999fill \\advance\\skip1 by \\skip1 ",
            ][rng.below(8)];
            let uses = [
                "\\dimen0=\\count1 sp ", "\\dimen0=-\\count1 pt ", "\\skip0=\\count1 sp plus \\count1 fil minus -\\count1 sp ",
                "\\count2=-\\count1 ", "\\count\\count1=1 ", "\\catcode\\count1=1 ", "\\ifnum\\count1<-\\count1 a\\fi ",
                "\\ifcase\\count1 a\\or b\\fi ", "\\ifodd\\count1 a\\fi ", "\\divide\\count1 by -1 ", "\\multiply\\count1 by -1 ",
                "\\advance\\count1 by \\count1 ", "\\count3=\\dimen1 ", "\\dimen2=-\\dimen1 ", "\\dimen2=2\\dimen1 ", "\\dimen2=\\count1\\dimen1 ",
                "\\multiply\\dimen1 by \\count1 ", "\\divide\\dimen1 by \\count1 ", "\\skip2=-\\skip1 ", "\\skip2=\\count1\\skip1 ",
                "\\multiply\\skip1 by 2 ", "\\the\\count1 \\the\\dimen1 \\the\\skip1 ", "\\chardef\\xa=\\count1 ", "\\mathchardef\\xa=\\count1 ",
                "\\endlinechar=\\count1 ", "\\openin\\count1=fa ", "\\read\\count1 to\\xa ", "\\dimen2=\\count1 truein ", "\\dimen2=\\count1 em ",
                "\\dimen2=.5\\dimen1 ", "\\dimen2=1.99999\\dimen1 ", "\\newInt\\xi \\xi=\\count1 \\advance\\xi by \\xi ",
            ];
            let mut s = setup.to_string();
            for _ in 0..(1 + rng.below(3)) {
                s.push_str(uses[rng.below(uses.len())]);
            }
            s
        }
        30..=34 => boundary_walk(rng),
        35 | 36 => error_storm(rng),
        39 => [
            "\\newIntArray\\xj 3 \\let\\xk=\\xj \\xk 0=1 \\the\\xk 0 ", "\\newIntArray\\xj 3 \\xj 3=1 ", "\\newIntArray\\xj 3 \\xj -1=1 ",
            "\\newIntArray\\xj 0 \\xj 0=1 ", "\\newIntArray\\xj -1 ", "\\newIntArray\\xj ", "\\newIntArray 3 ", "\\newIntArray~ 2 ~1=5 \\the~1 ",
            "\\newInt\\xi \\let\\xk=\\xi \\xk=5 \\the\\xk ", "\\newInt~ ~=5 ", "{\\newIntArray\\xj 2 }\\xj 0=1 ", "\\newIntArray\\xj 2 \\the\\xj 5 ",
            "\\newIntArray\\xj 2 \\advance\\xj 1 by 3 \\the\\xj 1 ", "\\newIntArray\\xj 2 \\countdef\\xj=3 \\xj=1 ", "\\newIntArray\\count 2 \\count 1=3 ",
            "\\dumpFormat=0 \\dump ", "\\dumpFormat=1 \\dump \\dump ", "\\dumpFormat=2 \\dumpValidate=1 \\dump ", "{\\iftrue \\dumpValidate=1 \\dump ",
            // \\dump reached in the middle of things: late on a line, on a later line of a source,
            // out of a macro or a token register, with pending input behind it
            "abc def \\dump ghi", "x\ny \\dump z\nw", "\\toks0={\\dump}\\the\\toks0 ", "\\def\\xa{\\dump}\\xa\\xa ", "\\def\\xa#1{#1}\\xa{\\dumpValidate=1 \\dump}y",
            "\\iftrue\\dump\\fi \\dumpFormat=1 \\dump", "\u{e9}\u{e9}\u{e9} \\dump \u{e9}", "\n\n\\dump", "\\expandafter\\dump\\jobname ",
        ][rng.below(28)]
        .to_string(),
        38 => {
            // macro tracing with long and multi-byte arguments and expansions
            let mut arg = String::new();
            for _ in 0..rng.below(70) {
                if rng.chance(1, 3) {
                    arg.push(unicode_char(rng));
                } else {
                    arg.push(['x', 'y', ' ', 'é'][rng.below(4)]);
                }
            }
            format!(
                "\\tracingmacros={} \\def\\xa#1#2{{[#1|#2#1]}}\\xa{{{arg}}}{{{}}}\\tracingmacros=0 ",
                [1, 2, -1, 2147483647][rng.below(4)],
                ["", "z", "\\relax", "{}"][rng.below(4)]
            )
        }
        37 => {
            // end-of-input errors right after input came from the terminal or a read stream
            let tail = ["\\def\\xa{", "\\let", "\\count", "\\the", "\\xa", "\\ifnum", "\\global", "\\toks1={", "\\expandafter", "\\read 3 to"][rng.below(10)];
            format!("\\read {} to\\xa {tail}", [0, 16, -1, 7][rng.below(4)])
        }
        _ => {
            // errors while something is pending: inside a macro argument, a \\read group, a
            // conditional being skipped, an alignment of prefixes
            [
                "\\def\\xa#1#2{#1}\\xa{\\count ", "\\def\\xa#1.{#1}\\xa abc", "\\iffalse\\ifnum ", "\\global\\long\\outer ",
                "\\global\\global\\global\\count1=1 ", "\\expandafter\\expandafter\\expandafter ", "\\noexpand ", "\\let\\xa ", "\\let\\xa= ",
                "\\toks1={\\iftrue ", "\\the\\toks ", "\\the\\the\\count1 ", "\\the\\noexpand\\count1 ", "\\countdef\\xa ", "\\newInt ", "\\newInt 5 ",
                "\\read 0 to ", "\\read 0 ", "\\openin ", "\\openin 1 ", "\\closein ", "\\ifeof ", "\\input ", "\\endinput\\endinput ",
                "\\jobname\\jobname ", "\\dumpFormat=7 \\dump ", "\\dumpFormat=1 \\dumpValidate=1 \\dump ", "\\fi\\fi\\else\\or ", "\\ifcase ", "\\ifcase -1 \\or a\\else b\\fi ",
                "\\ifcase-2147483647 \\or\\or\\or\\fi ", "\\ifcase 2147483647 \\or ", "}}}} ", "{{{{ ", "#1#2## ", "\\def\\xa#1#1{} ", "\\def\\xa#0{} ", "\\def\\xa#",
                "\\def\\xa{#} ", "\\def\\xa{#3} ", "\\def\\xa#1{##1#} \\xa a", "\\catcode`\\{=12 { ", "\\catcode`\\\\=12 \\relax ", "\\catcode`\\%=12 % ",
                "\\catcode32=12 \\count1 = 1 ", "\\catcode13=12 ", "\\endlinechar=-1 ", "\\endlinechar=92 ", "\\endlinechar=37 ", "\\endlinechar=123 ",
            ][rng.below(50)]
            .to_string()
        }
    }
}

/// Every installed name is assigned a boundary number as if it were an integer parameter (most are
/// not: an ordinary located error), then a battery of ordinary uses runs under whatever the
/// assignment changed - units and magnification, arithmetic, macro calls, groups, codes. A
/// parameter that is only validated where it is used, not where it is set, shows here.
fn param_sweep(rng: &mut Rng, vocab: &[String]) -> String {
    let battery = [
        "\\dimen1=1truept ", "\\skip1=1pt plus 2truein minus 3truecm ", "\\dimen1=1.5em ", "\\count1=\\dimen1 ", "\\dimen1=2\\dimen2 ", "\\the\\dimen1 ",
        "\\def\\xa#1{#1}\\xa{y}", "\\ifnum\\count1<2 a\\fi ", "{\\count1=5 }", "\\advance\\dimen1 by 1truept ", "\\mathchardef\\xb=\"7FFF \\xb ", "\\chardef\\xc=65 \\xc ",
        "\\catcode65=11 A", "\\toks1={a}\\the\\toks1 ", "\\multiply\\dimen1 by 2 ", "\\divide\\skip1 by 3 ", "\\dimen1=-.5truemm ", "x\\undefinedcs ",
    ];
    let cs = &vocab[rng.below(vocab.len())];
    let num = if rng.chance(1, 2) {
        ["0", "-1", "1", "65536", "65537", "32768", "2147483647", "-2147483647", "1000", "256", "255", "1114112"][rng.below(12)].to_string()
    } else {
        NUMBERS[rng.below(NUMBERS.len())].to_string()
    };
    let mut s = format!("{cs}={num} ");
    if rng.chance(1, 2) {
        s = format!("\\global{s}");
    }
    for _ in 0..2 + rng.below(3) {
        s.push_str(battery[rng.below(battery.len())]);
    }
    s
}

/// Installed commands whose names cannot be typed under the default category codes (they contain
/// `_`, a NUL, ...): internal helpers that are "not meant to be invoked". After category-code
/// changes that make every character of the name a letter they can be typed like any other name,
/// so they are input too.
fn hidden_name(rng: &mut Rng) -> String {
    let mut names: Vec<String> = crate::state::sim_built_ins()
        .keys()
        .filter(|k| !k.chars().all(|c| c.is_ascii_alphabetic()))
        .map(|k| k.to_string())
        .collect();
    names.sort();
    if names.is_empty() {
        return "\\relax ".to_string();
    }
    let name = &names[rng.below(names.len())];
    let mut s = String::new();
    let mut odd: Vec<char> = name.chars().filter(|c| !c.is_ascii_alphabetic()).collect();
    odd.sort();
    odd.dedup();
    for c in &odd {
        s.push_str(&format!("\\catcode{}=11 ", *c as u32));
    }
    let uses = [
        "\\{n} ", "\\{n}=1 ", "\\the\\{n} ", "\\let\\xa=\\{n} \\xa=2 ", "\\advance\\{n} by 1 ", "\\{n} 0=1 ", "\\the\\{n} 0 ",
        "\\global\\{n}=3 ", "\\count1=\\{n} ", "\\def\\{n}{{x}}\\{n} ", "\\expandafter\\{n}\\{n} ", "{{\\{n}=1 }}", "\\{n}",
    ];
    for _ in 0..1 + rng.below(2) {
        s.push_str(&uses[rng.below(uses.len())].replace("{n}", name).replace("{{", "{").replace("}}", "}"));
    }
    s
}

/// Deep but finite nesting with an error at the bottom (or nothing closed at all): nested macro
/// calls, groups, true and skipped conditionals, and a chain of n macros each calling the next, so
/// that the error's stack trace has n frames. n is drawn around 8-bit and round-number limits.
fn deep_nesting(rng: &mut Rng) -> String {
    let n = [10usize, 64, 99, 100, 101, 255, 256, 300, 1000, 3000][rng.below(10)];
    let bottom = ["\\undefinedcs ", "\\count ", "\\count1=x ", "}", "\\fi ", "x", "\\dimen0=\\count1 ", "\\endinput "][rng.below(8)];
    let close = rng.chance(2, 3);
    let letters = |mut k: usize| {
        let mut s = String::new();
        loop {
            s.push((b'a' + (k % 26) as u8) as char);
            k /= 26;
            if k == 0 {
                break;
            }
        }
        s
    };
    match rng.below(6) {
        0 => format!("\\def\\xa#1{{#1}}{}{bottom}{}", "\\xa{".repeat(n), if close { "}".repeat(n) } else { String::new() }),
        1 => format!("{}{bottom}{}", "{".repeat(n), if close { "}".repeat(n) } else { String::new() }),
        2 => format!("{}{bottom}{}", "\\iftrue ".repeat(n), if close { "\\fi ".repeat(n) } else { String::new() }),
        3 => format!("\\iffalse {}{bottom}{}\\fi {bottom}", "\\ifnum1<2 ".repeat(n), if close { "\\fi ".repeat(n) } else { String::new() }),
        4 => format!("{}{bottom}{}", "\\ifcase 1 \\or ".repeat(n), if close { "\\fi ".repeat(n) } else { String::new() }),
        _ => {
            // a chain of macros: \\zda -> \\zdb -> ... -> the error
            let n = n.min(300);
            let mut s = String::new();
            for k in 0..n {
                let next = if k + 1 < n { format!("\\zd{} ", letters(k + 1)) } else { bottom.to_string() };
                s.push_str(&format!("\\def\\zd{}{{{next}}}", letters(k)));
            }
            s.push_str("\\zda ");
            s
        }
    }
}

/// What a source can *start* with: interpreter lines (`#!`), a byte-order mark, comment and escape
/// characters, `^^` notation, braces, blanks, control characters, nothing at all - followed by
/// nothing, by a line end, or by ordinary material. The text is a whole source (a REPL line, an
/// \\input file or a \\read file), with or without a final line end.
fn line_start(rng: &mut Rng, vocab: &[String]) -> String {
    let starts = [
        "#!", "#!/usr/bin/env -S texcraft run", "#", "#1", "##", "!", "%", "%!", "\u{feff}", "\u{feff}#!", "\\", "^^", "^^M", "{", "}", "~",
        " ", "\t", "\r", "\0", "\u{7f}", "", "\u{e9}", "\u{2028}", "$", "&", "_", "^", "`", "\"", "'", "-", "=",
    ];
    let rests = ["", "", "\n", "\r\n", " ", "x", "\\count1=1 ", "\\undefinedcs", "\n\\count1=x", "}", "{", "\\par"];
    let mut s = String::new();
    s.push_str(starts[rng.below(starts.len())]);
    s.push_str(rests[rng.below(rests.len())]);
    if rng.chance(1, 4) {
        s.push_str(&vocab[rng.below(vocab.len())]);
    }
    s
}

/// Errors whose geometry is extreme: a token that is 1 .. 1000 characters wide (an undefined or a
/// defined control sequence with a very long name), at column 0, in the middle or at the very end
/// of a line that is itself 0 .. 2000 characters long, with single- or multi-byte padding. The
/// error, its notes and every frame of its stack trace must still render.
fn wide_layout(rng: &mut Rng) -> String {
    const W: [usize; 20] = [0, 1, 2, 49, 50, 51, 98, 99, 100, 101, 102, 103, 127, 128, 129, 200, 255, 256, 257, 1000];
    let pad = |rng: &mut Rng| {
        let n = W[rng.below(W.len())];
        let unit = ["a", "a", "b ", "\u{e9}", "\u{1d518}", "\t", "{}"][rng.below(7)];
        let mut s = String::new();
        while s.chars().count() < n {
            s.push_str(unit);
        }
        s
    };
    let w = W[1 + rng.below(W.len() - 1)];
    let name: String = format!("\\{}", "q".repeat(w.max(2) - 1));
    let left = pad(rng);
    let right = if rng.chance(1, 2) { pad(rng) } else { String::new() };
    match rng.below(8) {
        0 => format!("{left}{name} {right}"),
        1 => format!("{left}\\advance{name} by 1 {right}"),
        2 => format!("{left}\\let\\xa={name}\\xa {right}"),
        3 => format!("\\def{name}#1#2{{#1\\undefinedcs #2}}{left}{name}{{x}}{{y}}{right}"),
        4 => format!("\\def{name}#1{{#1}}{left}{name}"),
        5 => format!("\\def{name}{{x\\count}}{left}\\def\\xa{{{name}}}\\xa {right}"),
        6 => format!("{left}\\count1={} {right}\\count1=x", "7".repeat(w)),
        _ => format!("{left}\\the{name}{right}\\the"),
    }
}

/// Walk a register of any kind (each glue component included) to +-2^31 or +-(2^31-1) with
/// \\advance (which wraps silently, as in TeX), then apply every arithmetic primitive with
/// boundary operands and use the register wherever a number, dimension or glue is scanned.
fn boundary_walk(rng: &mut Rng) -> String {
    let mut s = String::new();
    // which extreme: (half, final nudge) so that half+half+nudge hits the target
    let (half, nudge) = [
        ("-1073741823", "-2"),
        ("-1073741823", "-1"),
        ("1073741823", "1"),
        ("1073741823", "0"),
        ("-1073741823", "0"),
    ][rng.below(5)];
    match rng.below(5) {
        0 => s.push_str(&format!("\\count1={half} \\advance\\count1 by \\count1 \\advance\\count1 by {nudge} ")),
        1 => s.push_str(&format!("\\dimen1={half}sp \\advance\\dimen1 by \\dimen1 \\advance\\dimen1 by {nudge}sp ")),
        2 => s.push_str(&format!("\\skip1={half}sp \\advance\\skip1 by \\skip1 \\advance\\skip1 by {nudge}sp ")),
        3 => s.push_str(&format!("\\skip1=0pt plus {half}sp \\advance\\skip1 by \\skip1 \\advance\\skip1 by 0pt plus {nudge}sp ")),
        _ => s.push_str(&format!("\\skip1=0pt minus {half}sp \\advance\\skip1 by \\skip1 \\advance\\skip1 by 0pt minus {nudge}sp ")),
    }
    if rng.chance(1, 3) {
        // a second register at an extreme, so that binary uses meet two extremes
        s.push_str(["\\count2=\\count1 ", "\\dimen2=1073741823sp \\advance\\dimen2 by \\dimen2 ", "\\skip2=\\skip1 ", "\\count2=-2147483647 "][rng.below(4)]);
    }
    let regs = ["\\count1", "\\dimen1", "\\skip1", "\\count2", "\\dimen2", "\\skip2"];
    let operands = ["-1", "0", "1", "2", "-2", "2147483647", "-2147483647", "\\count1", "-\\count1", "\\count2", "3", "65536", "-65536"];
    for _ in 0..(1 + rng.below(4)) {
        let r = regs[rng.below(regs.len())];
        match rng.below(9) {
            0 => s.push_str(&format!("\\divide{r} by {} ", operands[rng.below(operands.len())])),
            1 => s.push_str(&format!("\\multiply{r} by {} ", operands[rng.below(operands.len())])),
            2 => s.push_str(&format!("\\advance{r} by {r} ")),
            3 => s.push_str(&format!("\\advance{r} by -{r} ")),
            4 => s.push_str(&format!("\\the{r} ")),
            5 => s.push_str(&format!("\\skip3={r} plus {r} minus -{r} ", r = if r.contains("count") { format!("{r} sp") } else { r.to_string() })),
            6 => s.push_str(&format!("\\dimen3=-{r} \\dimen3=2{r} \\dimen3=.5{r} ", r = if r.contains("count") { format!("{r} sp") } else { r.to_string() })),
            7 => s.push_str(&format!("\\count3={r} \\count3=-{r} ")),
            _ => s.push_str(&format!("\\ifnum{r}<-{r} a\\fi \\ifodd{r} b\\fi \\ifcase{r} c\\or d\\else e\\fi ")),
        }
    }
    s
}

/// Lexer and tracer stress: a (possibly multi-line) source over a character set rich in
/// specials - `^^` notation, control characters, trailing blanks, tabs, multi-byte characters,
/// CRLF, no final newline - usually preceded by a line that changes \\endlinechar and a few
/// category codes, so that the same text is lexed under many regimes. Every token gets a trace
/// key; errors raised anywhere in it must still be located and rendered.
fn lexer_stress(rng: &mut Rng) -> Vec<String> {
    let mut lines = vec![];
    if rng.chance(2, 3) {
        let mut pre = String::new();
        pre.push_str(["", "\\endlinechar=-1 ", "\\endlinechar=32 ", "\\endlinechar=92 ", "\\endlinechar=37 ", "\\endlinechar=65 ", "\\endlinechar=127 ", "\\endlinechar=123 ", "\\endlinechar=94 "][rng.below(9)]);
        for _ in 0..rng.below(4) {
            let ch = [32, 92, 123, 125, 37, 94, 13, 10, 9, 65, 48, 126, 35, 36, 233, 8364, 0, 127][rng.below(18)];
            let cat = rng.below(16);
            pre.push_str(&format!("\\catcode{ch}={cat} "));
        }
        lines.push(pre);
    }
    let atoms = [
        "a", "Z", "0", " ", "  ", "\t", "\\", "{", "}", "%", "^^", "^^M", "^^?", "^^@", "^^a", "^^5c", "^^7b", "^", "~", "#", "$", "&", "_", "!", "#!", "\u{feff}",
        "é", "€", "\u{1D518}", "\u{7f}", "\u{0}", "\\relax", "\\count", "\\def", "\\the", "\\undefinedcs", "\\é", "\\ ", "\\^^M", "\\^^", "1", "=", "-", "`",
    ];
    let nl = ["\n", "\n", "\r\n", " \n", "   \n", "\n\n", "%\n", "\r"];
    let mut src = String::new();
    let nlines = 1 + rng.below(5);
    for k in 0..nlines {
        for _ in 0..rng.below(9) {
            if rng.chance(1, 6) {
                src.push(unicode_char(rng));
            } else {
                src.push_str(atoms[rng.below(atoms.len())]);
            }
        }
        if k + 1 < nlines || rng.chance(1, 2) {
            src.push_str(nl[rng.below(nl.len())]);
        }
    }
    lines.push(src);
    // restore sane lexing for whatever follows in the job
    lines.push("\\endlinechar=13 \\catcode32=10 \\catcode92=0 \\catcode123=1 \\catcode125=2 \\catcode37=14 \\catcode65=11 \\catcode48=12 %".to_string());
    lines
}

/// Many recoverable errors in one line: 99, 100, 101 ... of them, in whatever interaction mode
/// the job is in (error counters, logs that grow, limits).
fn error_storm(rng: &mut Rng) -> String {
    let n = [99usize, 100, 101, 128, 255, 256, 300][rng.below(7)];
    let (setup, unit) = [
        ("\\def\\xa x{}", "\\xa y"),
        ("", "\\count-1=0 "),
        ("", "a\\else "),
        ("", "\\catcode 1=16 "),
        ("", "\\count13=X"),
        ("\\def\\xa x{}", "\\count-1=0 \\xa y"),
        ("", "\\fi "),
    ][rng.below(7)];
    let mode = ["", "", "\\batchmode ", "\\scrollmode ", "\\nonstopmode "][rng.below(5)];
    let mut s = format!("{mode}{setup}");
    for _ in 0..n {
        s.push_str(unit);
    }
    s
}

/// Damage a text at rest: truncate at any byte (kept valid UTF-8), flip one byte to another ASCII
/// character, drop or duplicate a line.
fn damage_text(rng: &mut Rng, s: &str, log: &mut Vec<String>, what: &str) -> String {
    if s.is_empty() {
        return s.to_string();
    }
    match rng.below(4) {
        0 => {
            let mut cut = rng.below(s.len() + 1);
            while !s.is_char_boundary(cut) {
                cut -= 1;
            }
            log.push(format!("truncate {what} at byte {cut}"));
            s[..cut].to_string()
        }
        1 => {
            let mut b = s.as_bytes().to_vec();
            let i = rng.below(b.len());
            if b[i] < 128 {
                let pool = b"\\{}#%^~ 0123456789-=`'\"aZ\x7f\x00\n";
                b[i] = pool[rng.below(pool.len())];
                log.push(format!("flip byte {i} of {what} to {:?}", b[i] as char));
            }
            String::from_utf8(b).unwrap_or_else(|_| s.to_string())
        }
        2 => {
            let lines: Vec<&str> = s.split('\n').collect();
            if lines.len() > 1 {
                let i = rng.below(lines.len());
                let mut l = lines.clone();
                l.remove(i);
                log.push(format!("lose line {i} of {what}"));
                l.join("\n")
            } else {
                s.to_string()
            }
        }
        _ => {
            let lines: Vec<&str> = s.split('\n').collect();
            let i = rng.below(lines.len());
            let mut l = lines.clone();
            l.insert(i, lines[i]);
            log.push(format!("duplicate line {i} of {what}"));
            l.join("\n")
        }
    }
}

impl Property for C09 {
    type Case = Case;
    fn id(&self) -> &'static str {
        "C09"
    }
    fn runs(&self, tier: Tier) -> u64 {
        match tier {
            Tier::Quick => 100_000,
            Tier::Thorough => 3_000_000,
        }
    }

    fn generate(&self, run_seed: u64, run_index: u64) -> Case {
        let mut rng = Rng::split(run_seed, 9);
        let vocab = vocabulary();
        // Base program: a C08 job (scoping ops + raw pieces + files + terminal), or pure soup.
        let (mut lines, mut env): (Vec<String>, EnvSpec) = if run_index % 3 != 2 {
            let base = c08::C08.generate(run_seed, run_index);
            let (job, _) = c08::build_job(&base);
            (job.lines, job.env)
        } else {
            (
                vec![],
                EnvSpec {
                    files: vec![
                        ("fa.tex".into(), b"A{\\count1=3 \nB}\\iftrue C\n".to_vec()),
                        ("r0.tex".into(), b"x{\ny}\n\nz".to_vec()),
                    ],
                    terminal: {
                        let pool = ["t1", "{t2", "t3}", "", " ", "\n", "   \n", "\t", "x\n", "{", "}", "%", "é", "\\relax", "  y  "];
                        (0..rng.below(6)).map(|_| pool[rng.below(pool.len())].to_string()).collect()
                    },
                    ..Default::default()
                },
            )
        };
        // Blank, whitespace-only and newline-terminated terminal lines (also for C08-derived jobs).
        if rng.chance(1, 3) {
            let pool = ["", " ", "\n", "   \n", "\t", "x\n", "%"];
            let at = rng.below(env.terminal.len() + 1);
            env.terminal.insert(at, pool[rng.below(pool.len())].to_string());
        }
        // Keep jobs short: many short diverse runs beat few long ones.
        if lines.len() > 25 {
            lines.truncate(25);
        }
        // Interaction mode at the start, switches at random lines.
        let modes = ["\\errorstopmode ", "\\scrollmode ", "\\nonstopmode ", "\\batchmode "];
        let mut out: Vec<String> = vec![format!("{}%", modes[rng.below(4)])];
        let n_extra = 1 + rng.below(10);
        for l in lines {
            out.push(l);
            if rng.chance(1, 12) {
                out.push(format!("{}%", modes[rng.below(4)]));
            }
        }
        for _ in 0..n_extra {
            let l = if rng.chance(1, 2) {
                soup_line(&mut rng, &vocab)
            } else {
                template_line(&mut rng, &vocab)
            };
            // One time in five the text does not go into the main input but into a file that is
            // \\input or \\read: the same errors must be located inside files and streams too.
            if rng.chance(1, 5) {
                let name = format!("z{}", rng.below(3));
                let content = if rng.chance(1, 2) { format!("{l}\n") } else { l.clone() };
                env.files.retain(|(n, _)| *n != format!("{name}.tex"));
                env.files.push((format!("{name}.tex"), content.into_bytes()));
                let user = if rng.chance(1, 2) {
                    // with a blank after the name, or with the name ended by the end of the line
                    format!("\\input {name}{}", if rng.chance(2, 3) { " " } else { "" })
                } else {
                    format!("\\openin5={name} \\read5 to\\xa \\xa \\read5 to\\xa \\xa ")
                };
                let at = 1 + rng.below(out.len());
                out.insert(at, user);
            } else {
                let at = 1 + rng.below(out.len());
                out.insert(at, l);
            }
        }
        if rng.chance(1, 3) {
            let at = 1 + rng.below(out.len());
            for (k, l) in lexer_stress(&mut rng).into_iter().enumerate() {
                out.insert(at + k, l);
            }
        }
        // Faults: at least one in 2 of 3 runs.
        let mut damage = vec![];
        if run_index % 3 != 0 {
            let nd = 1 + rng.below(3);
            for _ in 0..nd {
                match rng.below(7) {
                    0 | 1 | 2 => {
                        let i = rng.below(out.len());
                        out[i] = damage_text(&mut rng, &out[i].clone(), &mut damage, &format!("main line {i}"));
                    }
                    3 => {
                        if !env.files.is_empty() {
                            let i = rng.below(env.files.len());
                            let s = String::from_utf8_lossy(&env.files[i].1).to_string();
                            let name = env.files[i].0.clone();
                            env.files[i].1 = damage_text(&mut rng, &s, &mut damage, &format!("file {name}")).into_bytes();
                        }
                    }
                    4 => {
                        if !env.files.is_empty() {
                            let i = rng.below(env.files.len());
                            let name = env.files[i].0.clone();
                            if rng.chance(1, 2) {
                                damage.push(format!("file {name} missing"));
                                env.files.remove(i);
                            } else {
                                let k = [IoFault::Eio, IoFault::PermissionDenied, IoFault::InvalidData][rng.below(3)];
                                damage.push(format!("file {name} unreadable ({k:?})"));
                                env.unreadable.push((name, k));
                            }
                        }
                    }
                    5 if rng.chance(1, 2) => {
                        let k = rng.below(3) as u64;
                        let f = [IoFault::NoSpace, IoFault::Eio, IoFault::PermissionDenied][rng.below(3)];
                        env.fs_write_faults.push((k, f));
                        damage.push(format!("write {k} to the disk fails with {f:?}"));
                    }
                    _ => {
                        if rng.chance(1, 2) {
                            let k = rng.below(3);
                            env.terminal.truncate(k);
                            damage.push(format!("terminal exhausted after {k} lines"));
                        } else {
                            let k = rng.below(4) as u64;
                            let f = [IoFault::Eio, IoFault::Interrupted][rng.below(2)];
                            env.term_faults.push((k, f));
                            damage.push(format!("terminal call {k} fails with {f:?}"));
                        }
                    }
                }
            }
        }
        // Environment event (one run in eight): a file is read, replaced between two lines by a
        // different one (longer, shorter, empty, more lines, other characters), and read again by
        // the same VM - what an interactive session does when a file is edited and \\input again.
        if rng.chance(1, 8) {
            let contents = [
                "alpha\n", "alpha beta gamma delta epsilon\nsecond line\n", "", "\\def\\xv{1}\n", "\\def\\xv{2}\n\\def\\xw{2026-09-26}\n",
                "x", "\u{e9}\u{e9}\u{1d518}\n", "{\n", "}\n\\undefinedcs\n", "a\nb\nc\nd\ne\nf\ng\nh\ni\nj\n", "\\count1=x\n", "%\n",
            ];
            let users = [
                "\\input zr ", "\\openin5=zr \\read5 to\\xa \\xa \\closein5 ", "\\openin6=zr \\read6 to\\xa \\read6 to\\xb \\xa\\xb ", "\\input zr",
                "\\input zr \\undefinedcs ",
            ];
            let a = contents[rng.below(contents.len())];
            env.files.retain(|(n, _)| n != "zr.tex");
            env.files.push(("zr.tex".to_string(), a.as_bytes().to_vec()));
            let reads = 2 + rng.below(3);
            let mut at = 1 + rng.below(out.len());
            for k in 0..reads {
                out.insert(at.min(out.len()), users[rng.below(users.len())].to_string());
                if k > 0 && (k == 1 || rng.chance(1, 2)) {
                    let b = contents[rng.below(contents.len())];
                    env.file_updates.push((at.min(out.len() - 1), "zr.tex".to_string(), b.as_bytes().to_vec()));
                    damage.push(format!("replace file zr.tex before line {}", at.min(out.len() - 1)));
                }
                at += 1 + rng.below(3);
            }
        }
        // Files that input themselves (or each other): the nesting limit must end the run in a
        // located error (one run in 20).
        if rng.chance(1, 20) {
            let k = rng.below(SELF_INPUT_SHAPES.len());
            let (a, b, _) = SELF_INPUT_SHAPES[k];
            env.files.retain(|(n, _)| n != "zs.tex" && n != "zt.tex");
            env.files.push(("zs.tex".to_string(), a.as_bytes().to_vec()));
            if !b.is_empty() {
                env.files.push(("zt.tex".to_string(), b.as_bytes().to_vec()));
            }
            let at = 1 + rng.below(out.len());
            let u = rng.below(SELF_INPUT_USERS.len());
            out.insert(at, SELF_INPUT_USERS[u].to_string());
            damage.push(format!("self-input shape {k} user {u}"));
        }
        // Environment fault (one run in 25): the working directory cannot be determined.
        if rng.chance(1, 25) {
            env.no_working_directory = true;
            damage.push("cwd unknown (VM.working_directory = None)".to_string());
        }
        // Avoid rules for listed findings (exactly the documented trigger, nothing else).
        for id in &self.avoid {
            apply_avoid_rule(id, &mut out);
        }
        Case {
            lines: out,
            env,
            hash_seed: rng.next_u64(),
            damage,
        }
    }

    fn evaluate(&self, case: &Case) -> Evaluation {
        let mut ev = Evaluation::default();
        let job = Job {
            lines: case.lines.clone(),
            env: case.env.clone(),
            clock: Clock::default(),
            real_state: false,
        };
        // Keep going after errors (as the REPL does); a panic poisons the VM and ends the run.
        let trace = run_job(&job, &Schedule::reference(case.hash_seed), true);
        let mut log = String::new();
        for l in &job.lines {
            log.push_str(l);
            log.push('\n');
        }
        let mut errors = 0u64;
        for ex in &trace.execs {
            log.push_str(&format!("L{} out={:?} {}\n", ex.line, ex.obs.out, ex.obs.result.short()));
            ev.bump("lines_executed");
            let line = &job.lines[ex.line];
            match &ex.obs.result {
                LineResult::Ok => {}
                LineResult::Budget => {
                    ev.bump("budget_exceeded");
                    // Judged only for the self-input scenario in its judged shapes, with the
                    // files and the line exactly as generated (no damage reached them) and the
                    // default line-end handling (no \\endlinechar or category-code change anywhere
                    // in the job: with \\endlinechar=-1 a file whose last token is its own \\input
                    // is used up while the name is still being scanned and never nests, in TeX too).
                    let default_line_ends = !job
                        .lines
                        .iter()
                        .map(|l| l.as_str())
                        .chain(job.env.files.iter().map(|(_, b)| std::str::from_utf8(b).unwrap_or("catcode")))
                        .any(|t| t.contains("endlinechar") || t.contains("catcode"))
                        && case.damage.iter().any(|d| {
                            let w: Vec<&str> = d.split(' ').collect();
                            if w.len() != 5 || w[0] != "self-input" {
                                return false;
                            }
                            let (k, u): (usize, usize) = (w[2].parse().unwrap_or(99), w[4].parse().unwrap_or(99));
                            if k >= SELF_INPUT_SHAPES.len() || u >= SELF_INPUT_USERS.len() {
                                return false;
                            }
                            let (a, b, judged) = SELF_INPUT_SHAPES[k];
                            let file = |n: &str| job.env.files.iter().find(|(f, _)| f == n).map(|(_, c)| c.clone());
                            judged
                                && line == SELF_INPUT_USERS[u]
                                && file("zs.tex").as_deref() == Some(a.as_bytes())
                                && (b.is_empty() || file("zt.tex").as_deref() == Some(b.as_bytes()))
                                && job.env.file_updates.is_empty()
                        });
                    if ex.obs.runaway_input && default_line_ends && ev.violation.is_none() {
                        ev.violation = Some(Violation {
                            class: "c09:runaway-input".into(),
                            detail: format!("line {} `{}`: more than 2000 files were read without a single macro expansion - an \\input recursion that no nesting limit stopped", ex.line, line),
                        });
                    }
                }
                LineResult::Panic { location, message } => {
                    if ev.violation.is_none() {
                        ev.violation = Some(Violation {
                            class: format!("c09:panic:{}", panic_site(location, message)),
                            detail: format!("line {} `{}`: panic at {location}: {message}", ex.line, line),
                        });
                    }
                }
                LineResult::Err(e) => {
                    errors += 1;
                    ev.bump(&format!("errors.{}", e.kind));
                    // Distinct error messages reached (digits normalised, cut to 60 characters).
                    let mut t = String::new();
                    let mut last_digit = false;
                    for c in e.title.chars().take(60) {
                        if c.is_ascii_digit() {
                            if !last_digit {
                                t.push('N');
                            }
                            last_digit = true;
                        } else {
                            last_digit = false;
                            t.push(c);
                        }
                    }
                    ev.states.insert(format!("{}|{}|stack={}", e.kind, t, e.stack.len().min(4)));
                    if ev.violation.is_none() {
                        if let Some((loc, msg)) = &e.render_panic {
                            ev.violation = Some(Violation {
                                class: format!("c09:render-panic:{}", panic_site(loc, msg)),
                                detail: format!("line {} `{}`: rendering the error `{}` panicked at {loc}: {msg}", ex.line, line, e.title),
                            });
                        } else if !e.located() {
                            ev.violation = Some(Violation {
                                class: "c09:unlocated-error".into(),
                                detail: format!("line {} `{}`: error `{}` carries no source location", ex.line, line, e.title),
                            });
                        } else if !e.rendered_len_nonzero {
                            ev.violation = Some(Violation {
                                class: "c09:empty-rendering".into(),
                                detail: format!("line {} `{}`: error `{}` renders to nothing", ex.line, line, e.title),
                            });
                        }
                    }
                }
            }
            if matches!(ex.obs.result, LineResult::Ok | LineResult::Err(_))
                && ex.obs.exec_stack != 0
                && ev.violation.is_none()
            {
                ev.violation = Some(Violation {
                    class: "c09:execution-stack-not-empty".into(),
                    detail: format!("after line {} `{}` the execution stack holds {} frames", ex.line, line, ex.obs.exec_stack),
                });
            }
            if !ex.obs.term_out.is_empty() || !ex.obs.log.is_empty() {
                ev.bump("reach.recovered_error_logged");
            }
        }
        if let Some(a) = &trace.aborted {
            if ev.violation.is_none() {
                ev.violation = Some(Violation {
                    class: "c09:aborted".into(),
                    detail: a.clone(),
                });
            }
        }
        // Second execution on the repository's own `StdLibState` (its glue: hook delegations,
        // component wiring), for jobs that touch neither files nor the terminal nor the disk
        // (that type hard-wires the real ones) and that the first execution finished within every
        // budget (that type has no budget hooks). One eligible run in two.
        // (Also excluded: the harness's own font selectors. They are installed on this state type
        // for the scoping workloads only; `StdLibState` does not implement the font side of
        // `TheCompatible`, and no shipped primitive can create a font.)
        let file_or_terminal = ["\\input", "\\openin", "\\read", "\\closein", "\\dump", "\\endinput", "\\font"];
        let eligible = ev.violation.is_none()
            && trace.aborted.is_none()
            && case.hash_seed % 2 == 1
            && trace.execs.iter().all(|e| matches!(e.obs.result, LineResult::Ok | LineResult::Err(_)))
            && !job.lines.iter().any(|l| file_or_terminal.iter().any(|w| l.contains(w)));
        if eligible {
            ev.bump("runs_also_on_real_StdLibState");
            let job2 = Job {
                lines: case.lines.clone(),
                env: EnvSpec::default(),
                clock: Clock::default(),
                real_state: true,
            };
            let t2 = run_job(&job2, &Schedule::reference(case.hash_seed), true);
            for ex in &t2.execs {
                ev.bump("lines_executed_on_real_StdLibState");
                let line = &job2.lines[ex.line];
                let v = match &ex.obs.result {
                    LineResult::Ok | LineResult::Budget => None,
                    LineResult::Panic { location, message } => Some((
                        format!("c09:panic:{}", panic_site(location, message)),
                        format!("panic at {location}: {message}"),
                    )),
                    LineResult::Err(e) => {
                        if let Some((loc, msg)) = &e.render_panic {
                            Some((format!("c09:render-panic:{}", panic_site(loc, msg)), format!("rendering the error `{}` panicked at {loc}: {msg}", e.title)))
                        } else if !e.located() {
                            Some(("c09:unlocated-error".to_string(), format!("error `{}` carries no source location", e.title)))
                        } else if !e.rendered_len_nonzero {
                            Some(("c09:empty-rendering".to_string(), format!("error `{}` renders to nothing", e.title)))
                        } else {
                            None
                        }
                    }
                };
                let v = v.or_else(|| {
                    if matches!(ex.obs.result, LineResult::Ok | LineResult::Err(_)) && ex.obs.exec_stack != 0 {
                        Some(("c09:execution-stack-not-empty".to_string(), format!("the execution stack holds {} frames afterwards", ex.obs.exec_stack)))
                    } else {
                        None
                    }
                });
                if let Some((class, what)) = v {
                    ev.violation = Some(Violation {
                        class,
                        detail: format!("on the repository's own StdLibState: line {} `{}`: {what}", ex.line, line),
                    });
                    break;
                }
            }
            if let Some(a) = &t2.aborted {
                if ev.violation.is_none() {
                    ev.violation = Some(Violation {
                        class: "c09:aborted".into(),
                        detail: format!("on the repository's own StdLibState: {a}"),
                    });
                }
            }
        }
        for d in &case.damage {
            let k = d.split(' ').next().unwrap_or("?");
            if k == "self-input" {
                // a workload scenario, not a fault
                ev.bump("reach.self_including_files_scenario");
                continue;
            }
            ev.bump(&format!("faults.{}", match k {
                "truncate" => "truncate_at_byte",
                "flip" => "byte_flip",
                "lose" => "line_lost",
                "duplicate" => "line_duplicated",
                "file" => "file_missing_or_unreadable",
                "terminal" => "terminal_exhausted_or_failing",
                "write" => "disk_write_fails",
                "replace" => "file_replaced_between_lines",
                "cwd" => "working_directory_unknown",
                _ => "other",
            }));
        }
        ev.add("errors_total", errors);
        ev.add("comparisons", trace.execs.len() as u64);
        ev.nontrivial = errors > 0 || !case.damage.is_empty();
        ev.log = log;
        ev.sample = serde_json::json!({
            "lines": case.lines,
            "files": case.env.files.iter().map(|(n, b)| (n.clone(), String::from_utf8_lossy(b).to_string())).collect::<Vec<_>>(),
            "terminal": case.env.terminal,
            "file_updates": case.env.file_updates.iter().map(|(at, n, b)| (*at, n.clone(), String::from_utf8_lossy(b).to_string())).collect::<Vec<_>>(),
            "damage": case.damage,
            "per_line": trace.execs.iter().map(|e| format!("L{} {:?} {}", e.line, e.obs.out, e.obs.result.short())).collect::<Vec<_>>(),
        });
        ev
    }

    fn shrink(&self, case: &Case) -> Vec<Case> {
        let mut out = vec![];
        let n = case.lines.len();
        let mut chunk = n / 2;
        while chunk >= 1 {
            let mut s = 0;
            while s < n {
                let mut c = case.clone();
                let e = (s + chunk).min(n);
                c.lines.drain(s..e);
                // file replacements keep their place relative to the lines that remain
                for u in c.env.file_updates.iter_mut() {
                    if u.0 >= e {
                        u.0 -= e - s;
                    } else if u.0 > s {
                        u.0 = s;
                    }
                }
                if !c.lines.is_empty() {
                    out.push(c);
                }
                s += chunk;
            }
            if chunk == 1 {
                break;
            }
            chunk /= 2;
        }
        for i in 0..case.env.files.len() {
            let mut c = case.clone();
            c.env.files.remove(i);
            out.push(c);
        }
        for i in 0..case.env.file_updates.len() {
            let mut c = case.clone();
            c.env.file_updates.remove(i);
            out.push(c);
        }
        if !case.env.terminal.is_empty() {
            let mut c = case.clone();
            c.env.terminal.clear();
            out.push(c);
        }
        // Cut lines at token-ish boundaries: halves, then at spaces and backslashes.
        for (i, l) in case.lines.iter().enumerate() {
            let mut cuts: Vec<usize> = l
                .char_indices()
                .filter(|(_, c)| *c == ' ' || *c == '\\' || *c == ';')
                .map(|(k, _)| k)
                .collect();
            cuts.dedup();
            for k in cuts {
                if k > 0 {
                    let mut c = case.clone();
                    c.lines[i] = l[..k].to_string();
                    out.push(c);
                }
                if k + 1 < l.len() && l.is_char_boundary(k) {
                    let mut c = case.clone();
                    c.lines[i] = l[k..].to_string();
                    out.push(c);
                }
            }
        }
        out
    }

    fn rule(&self) -> String {
        "A case is (lines, files, terminal script, fault list). Two of three runs start from a C08 job (scoping ops, macros with parameters, open conditionals, allocations, read streams, \\input, mode switches, recoverable errors); the third is pure token soup; every run gets 1-10 extra lines of token soup (installed primitives, boundary numbers at and beyond every limit incl. surrogates and 2^31, dimensions, braces, parameter characters, non-ASCII characters, ^^ notation) or of targeted templates (a primitive applied to boundary arguments), starts in one of the four interaction modes and switches mode at random lines. Two of three runs get 1-3 faults placed in the job: main input or a file truncated at any byte, one byte flipped to another ASCII character, a line lost or duplicated, a file missing or unreadable (EIO / EPERM / invalid UTF-8), the terminal exhausted or failing (EIO / EINTR) on call k. Invariants per line: no panic; VM::run returns; an error carries a position (token trace, end-of-input trace, override or non-empty stack); it renders without panicking to non-empty text; the execution stack is empty between lines. Lines that exhaust a step budget are not judged, with one exception: in the self-including-files scenario (shapes that nest one level per round in TeX, default line-end handling, files and line undamaged) a run cut off by the file-read budget without a single macro expansion is reported as an \\input recursion that no nesting limit stopped. Further environment events: a file replaced between two lines and read again by the same VM; the working directory unknown. Jobs that touch neither files nor the terminal and finish within every budget are executed a second time on the repository's own StdLibState (one eligible run in two) under the same invariants. Non-trivial = at least one structured error was raised or at least one fault was injected. Distinct = distinct FNV hash of the serialised case.".into()
    }
    fn assumptions(&self) -> Vec<String> {
        vec![
            "Scope: totality under environment faults and damage on top of generated workloads; the pure input space ('every token sequence') is reached only as far as the generator plus single-fault damage goes - a simulator does not enumerate it.".into(),
            "\\sleep (real thread::sleep) and \\newIntArray in token soup (allocation size is an argument; allocation failure aborts instead of unwinding) are excluded.".into(),
            "Output-device failures (terminal_out, log_file) are not injected: no listed property quantifies over them.".into(),
            "A line that panics poisons the VM; the rest of that job is not judged.".into(),
        ]
    }
    fn components(&self) -> serde_json::Value {
        components_json()
    }
}

/// Avoid rules: one per listed finding id, removing exactly its documented trigger.
fn apply_avoid_rule(_id: &str, _lines: &mut [String]) {}
