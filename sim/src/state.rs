//! Simulated environment (file system, terminal, writers) and the harness-owned VM state type.
//!
//! `SimState` has exactly the components of `texlang_stdlib::StdLibState` and the same
//! `TexlangState` delegations; it exists because `StdLibState` hard-wires the real file
//! system, stdin and stdout through the default methods of the `Has*` traits.

use std::cell::{Cell, RefCell};
use std::collections::{BTreeMap, HashMap};
use std::path::{Path, PathBuf};
use std::rc::Rc;

use texlang::command;
use texlang::token;
use texlang::traits::*;
use texlang::types;
use texlang::types::CatCode;
use texlang::vm;
use texlang::vm::implement_has_component;
use texlang_common::{FileSystem, HasFileSystem, HasLogging, HasTerminalIn, TerminalIn};
use texlang_stdlib::*;

use crate::process::BudgetExceeded;

pub const SIM_CWD: &str = "/sim";

/// Kinds of injected I/O error.
#[derive(Clone, Copy, Debug, PartialEq, Eq, serde::Serialize, serde::Deserialize)]
pub enum IoFault {
    NotFound,
    PermissionDenied,
    Eio,
    InvalidData,
    Interrupted,
    UnexpectedEof,
    /// Disk full (ENOSPC) on a write.
    NoSpace,
}

impl IoFault {
    pub fn to_error(self) -> std::io::Error {
        use std::io::ErrorKind as K;
        let (k, m) = match self {
            IoFault::NotFound => (K::NotFound, "sim: not found"),
            IoFault::PermissionDenied => (K::PermissionDenied, "sim: permission denied"),
            IoFault::Eio => (K::Other, "sim: input/output error"),
            IoFault::InvalidData => (K::InvalidData, "sim: stream did not contain valid UTF-8"),
            IoFault::Interrupted => (K::Interrupted, "sim: interrupted system call"),
            IoFault::UnexpectedEof => (K::UnexpectedEof, "sim: terminal input exhausted"),
            IoFault::NoSpace => (K::Other, "sim: no space left on device"),
        };
        std::io::Error::new(k, m)
    }
}

/// In-memory file system with a fault plan keyed by the ordinal of the read call.
#[derive(Default)]
pub struct SimFs {
    pub files: RefCell<BTreeMap<PathBuf, Vec<u8>>>,
    /// k-th `read_*` call (0-based, counted per process since boot/restore) fails with this error.
    pub read_faults: RefCell<BTreeMap<u64, IoFault>>,
    /// k-th `write_bytes` call (0-based, per process) fails with this error (disk full, EIO).
    pub write_faults: RefCell<BTreeMap<u64, IoFault>>,
    pub total_writes: Cell<u64>,
    /// Files that exist but cannot be read (by path).
    pub unreadable: RefCell<BTreeMap<PathBuf, IoFault>>,
    pub reads: Cell<u64>,
    /// Reads since the current line started (step budget: a loop of `\input`s that no nesting limit
    /// stops would otherwise run - and allocate - for ever).
    pub line_reads: Cell<u64>,
    pub read_budget_tripped: Cell<bool>,
    pub writes: Cell<u64>,
    pub faults_fired: RefCell<BTreeMap<&'static str, u64>>,
    /// Log of (path, ok) for every read, for the event log.
    pub read_log: RefCell<Vec<(String, bool)>>,
}

impl SimFs {
    pub fn add(&self, rel: &str, content: &[u8]) {
        let mut p = PathBuf::from(SIM_CWD);
        p.push(rel);
        self.files.borrow_mut().insert(p, content.to_vec());
    }
    fn bump(&self, k: &'static str) {
        *self.faults_fired.borrow_mut().entry(k).or_insert(0) += 1;
    }
    fn read(&self, path: &Path) -> std::io::Result<Vec<u8>> {
        let n = self.reads.get();
        self.reads.set(n + 1);
        self.line_reads.set(self.line_reads.get() + 1);
        if self.line_reads.get() > 2000 {
            self.read_budget_tripped.set(true);
            std::panic::resume_unwind(Box::new(BudgetExceeded));
        }
        if n % 64 == 0 {
            crate::process::check_memory_budget();
        }
        if let Some(f) = self.read_faults.borrow().get(&n) {
            self.bump(match f {
                IoFault::NotFound => "fs_read_notfound",
                IoFault::PermissionDenied => "fs_read_eperm",
                IoFault::Eio => "fs_read_eio",
                IoFault::InvalidData => "fs_read_invalid_data",
                _ => "fs_read_other",
            });
            self.read_log
                .borrow_mut()
                .push((path.display().to_string(), false));
            return Err(f.to_error());
        }
        if let Some(f) = self.unreadable.borrow().get(path) {
            self.bump(match f {
                IoFault::PermissionDenied => "fs_unreadable_eperm",
                IoFault::Eio => "fs_unreadable_eio",
                IoFault::InvalidData => "fs_unreadable_invalid_data",
                _ => "fs_unreadable_other",
            });
            self.read_log
                .borrow_mut()
                .push((path.display().to_string(), false));
            return Err(f.to_error());
        }
        match self.files.borrow().get(path) {
            None => {
                self.bump("fs_missing_file");
                self.read_log
                    .borrow_mut()
                    .push((path.display().to_string(), false));
                Err(IoFault::NotFound.to_error())
            }
            Some(b) => {
                self.read_log
                    .borrow_mut()
                    .push((path.display().to_string(), true));
                Ok(b.clone())
            }
        }
    }
}

impl FileSystem for SimFs {
    fn read_to_string(&self, path: &Path) -> std::io::Result<String> {
        let b = self.read(path)?;
        String::from_utf8(b).map_err(|_| {
            self.bump("fs_not_utf8");
            IoFault::InvalidData.to_error()
        })
    }
    fn read_to_bytes(&self, path: &Path) -> std::io::Result<Vec<u8>> {
        self.read(path)
    }
    fn write_bytes(&self, path: &Path, contents: &[u8]) -> std::io::Result<()> {
        self.writes.set(self.writes.get() + 1);
        let k = self.total_writes.get();
        self.total_writes.set(k + 1);
        if let Some(f) = self.write_faults.borrow().get(&k) {
            self.bump("fs_write_failed");
            return Err(f.to_error());
        }
        // Step budget for writes: a recursive macro around \\dump would otherwise fill the
        // simulated disk with megabyte-sized format files (the counter is reset for every line).
        if self.writes.get() > 16 {
            std::panic::resume_unwind(Box::new(BudgetExceeded));
        }
        crate::process::check_memory_budget();
        // Relative paths (as `\dump` produces) are resolved against the simulated cwd.
        let p = if path.is_absolute() {
            path.to_path_buf()
        } else {
            let mut p = PathBuf::from(SIM_CWD);
            p.push(path);
            p
        };
        self.files.borrow_mut().insert(p, contents.to_vec());
        Ok(())
    }
}

/// Scripted terminal with a fault plan keyed by the ordinal of the `read_line` call.
#[derive(Default)]
pub struct SimTerminal {
    pub lines: Vec<String>,
    pub cursor: usize,
    pub calls: u64,
    pub faults: BTreeMap<u64, IoFault>,
    pub prompts: Vec<Option<String>>,
    pub faults_fired: BTreeMap<&'static str, u64>,
}

impl TerminalIn for SimTerminal {
    fn read_line(&mut self, prompt: Option<&str>, buffer: &mut String) -> std::io::Result<()> {
        let n = self.calls;
        self.calls += 1;
        self.prompts.push(prompt.map(str::to_string));
        if let Some(f) = self.faults.get(&n) {
            *self
                .faults_fired
                .entry(match f {
                    IoFault::Eio => "term_eio",
                    IoFault::Interrupted => "term_eintr",
                    _ => "term_other",
                })
                .or_insert(0) += 1;
            return Err(f.to_error());
        }
        match self.lines.get(self.cursor) {
            None => {
                *self.faults_fired.entry("term_exhausted").or_insert(0) += 1;
                Err(IoFault::UnexpectedEof.to_error())
            }
            Some(l) => {
                buffer.push_str(l);
                self.cursor += 1;
                Ok(())
            }
        }
    }
}

/// In-memory writer for terminal-out / log; never fails.
#[derive(Default)]
pub struct SimWriter(pub Vec<u8>);

impl std::io::Write for SimWriter {
    fn write(&mut self, buf: &[u8]) -> std::io::Result<usize> {
        self.0.extend_from_slice(buf);
        Ok(buf.len())
    }
    fn flush(&mut self) -> std::io::Result<()> {
        Ok(())
    }
}

/// Handles to the simulated environment plus per-run observation buffers. Never serialised.
pub struct Env {
    pub fs: Rc<RefCell<SimFs>>,
    pub term: Rc<RefCell<SimTerminal>>,
    pub term_out: Rc<RefCell<SimWriter>>,
    pub log: Rc<RefCell<SimWriter>>,
    /// Tokens delivered to the handlers (the VM's "output").
    pub tokens: Vec<token::Token>,
    /// Fonts passed to `enable_font_hook`.
    pub font_events: Vec<u16>,
    /// Macro expansions in the current line (budget).
    pub expansions: Cell<u64>,
    pub expansion_budget: u64,
    /// Tokens delivered in the current line (budget, for loops that do not expand macros).
    pub token_budget: usize,
    /// Command references of the font selector built-ins, for `\the<font>` (set at boot/restore).
    pub font_refs: Vec<(u16, token::CommandRef)>,
    /// Recoverable errors reported in the current line (budget).
    pub recovered_errors: Cell<u64>,
}

impl Default for Env {
    fn default() -> Self {
        Env {
            fs: Default::default(),
            term: Default::default(),
            term_out: Default::default(),
            log: Default::default(),
            tokens: Vec::new(),
            font_events: Vec::new(),
            expansions: Cell::new(0),
            expansion_budget: 20_000,
            token_budget: 200_000,
            font_refs: Vec::new(),
            recovered_errors: Cell::new(0),
        }
    }
}

#[derive(Default, serde::Serialize, serde::Deserialize)]
pub struct SimState {
    pub alloc: alloc::Component,
    pub codes_cat_code: codes::Component<CatCode>,
    pub codes_math_code: codes::Component<types::MathCode>,
    pub conditional: conditional::Component,
    pub end_line_char: endlinechar::Component,
    pub error_mode: errormode::Component,
    pub input: input::Component<16>,
    pub job: job::Component,
    pub prefix: prefix::Component,
    pub registers_i32: registers::Component<i32, 32768>,
    pub registers_scaled: registers::Component<common::Scaled, 32768>,
    pub registers_glue: registers::Component<common::Glue, 32768>,
    pub registers_token_list: registers::Component<Vec<token::Token>, 256>,
    pub repl: repl::Component,
    pub script: script::Component,
    pub time: time::Component,
    pub tracing_macros: tracingmacros::Component,
    #[serde(skip)]
    pub env: Env,
}

impl TexlangState for SimState {
    #[inline]
    fn cat_code(&self, c: char) -> CatCode {
        codes::cat_code(self, c)
    }

    #[inline]
    fn end_line_char(&self) -> Option<char> {
        endlinechar::end_line_char(self)
    }

    fn post_macro_expansion_hook(
        token: token::Token,
        input: &vm::ExpansionInput<Self>,
        tex_macro: &texlang::texmacro::Macro,
        arguments: &[&[token::Token]],
        reversed_expansion: &[token::Token],
    ) {
        // The repository's hook prints its trace with println! to the real stdout, which is not
        // a seam: the process's stdout is pointed at /dev/null (process::init_output), so the
        // hook runs - it must not panic - but what it prints is not observed. Then the budget.
        tracingmacros::hook(token, input, tex_macro, arguments, reversed_expansion);
        let env = &input.state().env;
        let n = env.expansions.get() + 1;
        env.expansions.set(n);
        if n > env.expansion_budget {
            std::panic::resume_unwind(Box::new(BudgetExceeded));
        }
        if n % 64 == 0 {
            crate::process::check_memory_budget();
        }
    }

    #[inline]
    fn expansion_override_hook(
        token: token::Token,
        input: &mut vm::ExpansionInput<Self>,
        tag: Option<command::Tag>,
    ) -> texlang::prelude::Result<Option<token::Token>> {
        expansion::noexpand_hook(token, input, tag)
    }

    #[inline]
    fn variable_assignment_scope_hook(
        state: &mut Self,
    ) -> texcraft_stdext::collections::groupingmap::Scope {
        prefix::variable_assignment_scope_hook(state)
    }

    fn recoverable_error_hook(
        &self,
        recoverable_error: texlang::error::TracedTexError,
    ) -> Result<(), Box<dyn texlang::error::TexError>> {
        // Step budget for recovered errors: a recursive macro that errs on every level logs an
        // error with an ever deeper stack trace each time (quadratic memory). Such programs do
        // not terminate in TeX either; 400 leaves room for the 100-error boundary and beyond.
        let n = self.env.recovered_errors.get() + 1;
        self.env.recovered_errors.set(n);
        if n > 400 {
            std::panic::resume_unwind(Box::new(BudgetExceeded));
        }
        crate::process::check_memory_budget();
        errormode::recoverable_error_hook(self, recoverable_error)
    }

    fn enable_font_hook(&mut self, font: types::Font) {
        self.env.font_events.push(font.0);
    }
}

impl the::TheCompatible for SimState {
    fn get_command_ref_for_font(&self, font: types::Font) -> Option<token::CommandRef> {
        self.env
            .font_refs
            .iter()
            .find(|(f, _)| *f == font.0)
            .map(|(_, r)| *r)
    }
}

implement_has_component![SimState{
    alloc: alloc::Component,
    codes_cat_code: codes::Component<CatCode>,
    codes_math_code: codes::Component<types::MathCode>,
    conditional: conditional::Component,
    end_line_char: endlinechar::Component,
    error_mode: errormode::Component,
    input: input::Component<16>,
    job: job::Component,
    prefix: prefix::Component,
    registers_i32: registers::Component<i32, 32768>,
    registers_scaled: registers::Component<common::Scaled, 32768>,
    registers_glue: registers::Component<common::Glue, 32768>,
    registers_token_list: registers::Component<Vec<token::Token>, 256>,
    repl: repl::Component,
    script: script::Component,
    time: time::Component,
    tracing_macros: tracingmacros::Component,
}];

impl HasLogging for SimState {
    fn terminal_out(&self) -> Rc<RefCell<dyn std::io::Write>> {
        self.env.term_out.clone()
    }
    fn log_file(&self) -> Rc<RefCell<dyn std::io::Write>> {
        self.env.log.clone()
    }
}

impl HasFileSystem for SimState {
    fn file_system(&self) -> Rc<RefCell<dyn FileSystem>> {
        self.env.fs.clone()
    }
}

impl HasTerminalIn for SimState {
    fn terminal_in(&self) -> Rc<RefCell<dyn TerminalIn>> {
        // Same delegation as StdLibState: the error-mode component decides whether the
        // terminal may be used in the current interaction mode.
        self.error_mode.terminal_in()
    }
}

/// Font selectors offered as built-ins (`\fontA` .. `\fontC`).
pub const FONT_NAMES: [&str; 3] = ["fontA", "fontB", "fontC"];

pub fn sim_built_ins() -> HashMap<&'static str, command::BuiltIn<SimState>> {
    let mut m = texlang_stdlib::built_in_commands::<SimState>();
    m.insert("dump", job::get_dump());
    // \sleep calls the real thread::sleep, which is not behind a seam: never installed.
    m.remove("sleep");
    for (i, name) in FONT_NAMES.iter().enumerate() {
        m.insert(name, command::BuiltIn::new_font(types::Font(i as u16 + 1)));
    }
    m
}

pub fn std_built_ins() -> HashMap<&'static str, command::BuiltIn<StdLibState>> {
    let mut m = texlang_stdlib::built_in_commands::<StdLibState>();
    for (i, name) in FONT_NAMES.iter().enumerate() {
        m.insert(name, command::BuiltIn::new_font(types::Font(i as u16 + 1)));
    }
    m
}

/// Handlers that deliver every token the VM "typesets" into the state's sink.
pub struct SinkHandlers;

impl vm::Handlers<SimState> for SinkHandlers {
    fn character_handler(
        input: &mut vm::ExecutionInput<SimState>,
        token: token::Token,
        _c: char,
    ) -> texlang::prelude::Result<()> {
        let env = &mut input.state_mut().env;
        env.tokens.push(token);
        if env.tokens.len() > env.token_budget {
            std::panic::resume_unwind(Box::new(BudgetExceeded));
        }
        if env.tokens.len() % 1024 == 0 {
            crate::process::check_memory_budget();
        }
        Ok(())
    }

    fn math_character_handler(
        input: &mut vm::ExecutionInput<SimState>,
        token: token::Token,
        math_character: types::MathCode,
    ) -> texlang::prelude::Result<()> {
        // As texlang-testing does: deliver the math code as text.
        let s = format!("<m{}>", math_character.0);
        for c in s.chars() {
            let t = token::Token::new_other(c, token.trace_key());
            input.state_mut().env.tokens.push(t);
        }
        Ok(())
    }

    fn unexpanded_expansion_command(
        input: &mut vm::ExecutionInput<SimState>,
        token: token::Token,
    ) -> texlang::prelude::Result<()> {
        input.state_mut().env.tokens.push(token);
        Ok(())
    }
}

/// Render delivered tokens to text that is comparable across processes
/// (control-sequence numbering differs per process, so names are resolved).
pub fn render_tokens(tokens: &[token::Token], interner: &token::CsNameInterner) -> String {
    let mut s = String::new();
    for t in tokens {
        match t.value() {
            token::Value::CommandRef(token::CommandRef::ControlSequence(n)) => {
                s.push('\\');
                s.push_str(interner.resolve(n).unwrap_or("<unresolved>"));
                s.push(' ');
            }
            token::Value::CommandRef(token::CommandRef::ActiveCharacter(c)) => {
                s.push_str(&format!("<active {c}>"));
            }
            token::Value::Letter(c) | token::Value::Other(c) => s.push(c),
            token::Value::Space(_) => s.push(' '),
            v => {
                let (c, code) = v.char_and_cat_code().unwrap();
                s.push_str(&format!("<{}:{}>", code as u8, c));
            }
        }
    }
    s
}
