//! Reference model of TeX's group scoping (DESIGN Appendix B): a stack of total maps.
//! `{` pushes a copy of the top map, `}` pops it; a local assignment writes the top level, a
//! global one writes every level. The scope of an assignment is its `\global` flag overridden by
//! the model's own `\globaldefs` value (TeX §1214; `\gdef` stays global, §1218).
//!
//! The model also prints ops as TeX, because how a name is probed depends on what it means.

use std::collections::BTreeMap;

use crate::ops::*;

#[derive(Clone, Copy, Debug, PartialEq, Eq)]
pub enum Meaning {
    /// Not predicted (after `\let` to an undefined name): probes of it print nothing.
    Unknown,
    Undefined,
    Macro(u32),
    CharAlias(char),
    Prim(u8),
    RegAlias(RegKind, u16),
    CharDef(u8),
    Font(u8),
}

#[derive(Clone, Debug, PartialEq, Eq)]
struct Level {
    regs: BTreeMap<(RegKind, u16), (i32, i32)>,
    params: BTreeMap<Param, i32>,
    cats: BTreeMap<u32, u8>,
    meanings: BTreeMap<Target, Meaning>,
    font: u8,
}

/// Characters whose category code the workloads change. None of them ever occurs in program
/// text, so changing their codes cannot alter how the program is lexed.
pub const SPARE_CHARS: [(u32, u8); 8] = [
    (64, 12),
    (36, 3),
    (38, 4),
    (95, 8),
    (233, 12),
    (8364, 12),
    (1114110, 12),
    (128, 12),
];

pub fn default_cat(ch: u32) -> u8 {
    SPARE_CHARS
        .iter()
        .find(|(c, _)| *c == ch)
        .map(|(_, v)| *v)
        .unwrap_or(12)
}

#[derive(Clone, Debug)]
pub struct Model {
    stack: Vec<Level>,
    default_params: BTreeMap<Param, i32>,
}

/// What the model expects a line to do.
#[derive(Clone, Debug, PartialEq, Eq)]
pub struct Rendered {
    pub text: String,
    pub expect_out: String,
    /// `Some(title)` if the line must end in this fatal error.
    pub expect_err: Option<&'static str>,
    /// Current font expected after the line.
    pub expect_font: u16,
    /// False if the line contains raw text the model cannot predict.
    pub judged: bool,
    /// Reach counters contributed by this line.
    pub reach: Vec<&'static str>,
    pub depth_after: usize,
}

/// Token variety for the texts that macros and token registers hold (source text, what the sink
/// renders when the tokens are executed). The text is a pure function of the id, so that a
/// restored VM must reproduce it token for token: characters of one, two, three and four UTF-8
/// bytes (beyond the BMP too), a space token, character tokens of other categories, a group pair
/// and a control sequence. None of the characters is among [SPARE_CHARS], whose category codes the
/// workload changes.
const DECOS: [(&str, &str); 12] = [
    ("", ""),
    ("\u{ff}", "\u{ff}"),
    ("\u{3bb}", "\u{3bb}"),
    ("", ""),
    ("\u{1d538}", "\u{1d538}"),
    (" y", " y"),
    ("\u{1f600}x", "\u{1f600}x"),
    ("", ""),
    ("{}", ""),
    ("\\relax ", ""),
    ("^x", "<7:^>x"),
    ("\u{2603}\u{10ffff}", "\u{2603}\u{10ffff}"),
];

fn deco(id: u32) -> (&'static str, &'static str) {
    DECOS[(id as usize / 3) % DECOS.len()]
}

pub fn macro_body(id: u32) -> String {
    format!("Q{id}.{}", deco(id).0)
}
/// What executing the tokens of [macro_body] delivers to the sink.
pub fn macro_body_rendered(id: u32) -> String {
    format!("Q{id}.{}", deco(id).1)
}
pub fn toks_body(id: i32) -> String {
    if id == 0 {
        String::new()
    } else {
        format!("Z{id}.{}", deco(id as u32 ^ 0x5).0)
    }
}
/// What executing the tokens of [toks_body] delivers to the sink.
pub fn toks_body_rendered(id: i32) -> String {
    if id == 0 {
        String::new()
    } else {
        format!("Z{id}.{}", deco(id as u32 ^ 0x5).1)
    }
}

pub const ERR_UNDEFINED: &str = "undefined control sequence";
pub const ERR_NO_GROUP: &str = "there is no group to end";

impl Model {
    pub fn new(year: i32, day: i32) -> Model {
        let mut default_params = BTreeMap::new();
        default_params.insert(Param::EndLineChar, 13);
        default_params.insert(Param::GlobalDefs, 0);
        default_params.insert(Param::TracingMacros, 0);
        default_params.insert(Param::Year, year);
        default_params.insert(Param::Day, day);
        Model {
            stack: vec![Level {
                regs: BTreeMap::new(),
                params: BTreeMap::new(),
                cats: BTreeMap::new(),
                meanings: BTreeMap::new(),
                font: 0,
            }],
            default_params,
        }
    }

    pub fn depth(&self) -> usize {
        self.stack.len() - 1
    }
    fn top(&self) -> &Level {
        self.stack.last().unwrap()
    }
    pub fn reg(&self, kind: RegKind, idx: u16) -> (i32, i32) {
        self.top().regs.get(&(kind, idx)).copied().unwrap_or((0, 0))
    }
    pub fn param(&self, p: Param) -> i32 {
        self.top()
            .params
            .get(&p)
            .copied()
            .unwrap_or(self.default_params[&p])
    }
    pub fn cat(&self, ch: u32) -> u8 {
        self.top().cats.get(&ch).copied().unwrap_or(default_cat(ch))
    }
    pub fn meaning(&self, t: Target) -> Meaning {
        self.top()
            .meanings
            .get(&t)
            .copied()
            .unwrap_or(Meaning::Undefined)
    }
    pub fn font(&self) -> u8 {
        self.top().font
    }

    /// Effective scope of an assignment: TeX §1214 then §1218.
    fn global(&self, g: bool, gdef: bool) -> bool {
        let d = self.param(Param::GlobalDefs);
        if d > 0 {
            true
        } else if d < 0 {
            gdef
        } else {
            g || gdef
        }
    }

    fn write<F: Fn(&mut Level)>(&mut self, global: bool, f: F) {
        if global {
            for l in self.stack.iter_mut() {
                f(l);
            }
        } else {
            f(self.stack.last_mut().unwrap());
        }
    }

    fn pre(g: bool) -> &'static str {
        if g {
            "\\global"
        } else {
            ""
        }
    }

    /// Prefixes of a definition: `\\global` (if asked for) in every position among `\\long` and
    /// `\\outer`, which change nothing that the probes observe. The choice is a function of the
    /// body id.
    fn pre_def(g: bool, body: u32) -> &'static str {
        if g {
            ["\\global", "\\long\\global", "\\global\\long", "\\outer\\global", "\\long\\outer\\global", "\\global"][body as usize % 6]
        } else {
            ["", "", "\\long", "\\outer", "", "\\outer\\long"][body as usize % 6]
        }
    }

    fn reg_value_text(kind: RegKind, v: (i32, i32)) -> String {
        match kind {
            RegKind::Count => format!("{}", v.0),
            RegKind::Dimen => format!("{}.0pt", v.0),
            RegKind::Skip => {
                if v.1 != 0 {
                    format!("{}.0pt plus {}.0pt", v.0, v.1)
                } else {
                    format!("{}.0pt", v.0)
                }
            }
            RegKind::Toks => toks_body_rendered(v.0),
        }
    }

    fn reg_assign_text(kind: RegKind, v: (i32, i32)) -> String {
        match kind {
            RegKind::Count => format!("={} ", v.0),
            RegKind::Dimen => format!("={}pt ", v.0),
            RegKind::Skip => {
                if v.1 != 0 {
                    format!("={}pt plus {}pt\\relax ", v.0, v.1)
                } else {
                    format!("={}pt\\relax ", v.0)
                }
            }
            RegKind::Toks => format!("={{{}}}", toks_body(v.0)),
        }
    }

    /// Apply one line of ops: returns its TeX text and what is expected of it.
    pub fn line(&mut self, ops: &[Op]) -> Rendered {
        let mut text = String::new();
        let mut out = String::new();
        let mut err: Option<&'static str> = None;
        let mut judged = true;
        let mut bare = false;
        let mut reach: Vec<&'static str> = vec![];
        for op in ops {
            if err.is_some() {
                // The VM stops at a fatal error: the rest of the line is never executed. The text
                // is still printed (it is in the source) but has no effect.
                // To keep the text well-defined we simply do not print it.
                break;
            }
            match op {
                Op::Begin => {
                    text.push('{');
                    let top = self.top().clone();
                    self.stack.push(top);
                }
                Op::End => {
                    text.push('}');
                    if self.stack.len() == 1 {
                        err = Some(ERR_NO_GROUP);
                        reach.push("unmatched_end_group");
                    } else {
                        let popped = self.stack.pop().unwrap();
                        if popped != *self.top() {
                            reach.push("rollback_changed_state");
                        }
                        if self.stack.len() >= 2 {
                            reach.push("group_end_at_depth_ge_2");
                        }
                    }
                }
                Op::SetReg { g, kind, idx, v, w } => {
                    let val = if *kind == RegKind::Skip { (*v, *w) } else { (*v, 0) };
                    text.push_str(&format!(
                        "{}{}{}{}",
                        Self::pre(*g),
                        kind.cmd(),
                        idx,
                        Self::reg_assign_text(*kind, val)
                    ));
                    let glob = self.global(*g, false);
                    self.note_assign(glob, &mut reach);
                    let key = (*kind, *idx);
                    self.write(glob, |l| {
                        l.regs.insert(key, val);
                    });
                }
                Op::FailedGlobalArith { idx, mul } => {
                    // \multiply by 2147483647 overflows unless the register holds -1, 0 or 1
                    let v = self.reg(RegKind::Count, *idx).0;
                    if !*mul || !(-1..=1).contains(&v) {
                        text.push_str(&format!(
                            "\\scrollmode\\global{}\\count{} by {} \\errorstopmode ",
                            if *mul { "\\multiply" } else { "\\divide" },
                            idx,
                            if *mul { "2147483647" } else { "0" }
                        ));
                        reach.push("prefixed_assignment_failed_recoverably");
                    }
                }
                Op::CopyReg { g, kind, from, to } => {
                    text.push_str(&format!(
                        "{}{}{}={}{} ",
                        Self::pre(*g),
                        kind.cmd(),
                        to,
                        kind.cmd(),
                        from
                    ));
                    let val = self.reg(*kind, *from);
                    let glob = self.global(*g, false);
                    self.note_assign(glob, &mut reach);
                    reach.push("register_copied_from_register");
                    let key = (*kind, *to);
                    self.write(glob, |l| {
                        l.regs.insert(key, val);
                    });
                }
                Op::SetViaAlias { g, t, v } => {
                    if let Meaning::RegAlias(kind, idx) = self.meaning(*t) {
                        let val = (*v, 0);
                        text.push_str(&format!(
                            "{}{}{}",
                            Self::pre(*g),
                            t.tex(),
                            Self::reg_assign_text(kind, val)
                        ));
                        let glob = self.global(*g, false);
                        self.note_assign(glob, &mut reach);
                        reach.push("assign_via_alias");
                        self.write(glob, |l| {
                            l.regs.insert((kind, idx), val);
                        });
                    }
                }
                Op::Advance { g, idx, d } => {
                    let old = self.reg(RegKind::Count, *idx).0;
                    if let Some(new) = old.checked_add(*d) {
                        if new != i32::MIN {
                            text.push_str(&format!(
                                "{}\\advance\\count{} by {} ",
                                Self::pre(*g),
                                idx,
                                d
                            ));
                            let glob = self.global(*g, false);
                            self.note_assign(glob, &mut reach);
                            let key = (RegKind::Count, *idx);
                            self.write(glob, |l| {
                                l.regs.insert(key, (new, 0));
                            });
                        }
                    }
                }
                Op::Scale { g, idx, mul, k } => {
                    let old = self.reg(RegKind::Count, *idx).0;
                    let new = if *mul {
                        old.checked_mul(*k)
                    } else if *k == 0 {
                        None
                    } else {
                        old.checked_div(*k)
                    };
                    if let Some(new) = new {
                        if new != i32::MIN && old != i32::MIN {
                            text.push_str(&format!(
                                "{}\\{}\\count{} by {} ",
                                Self::pre(*g),
                                if *mul { "multiply" } else { "divide" },
                                idx,
                                k
                            ));
                            let glob = self.global(*g, false);
                            self.note_assign(glob, &mut reach);
                            let key = (RegKind::Count, *idx);
                            self.write(glob, |l| {
                                l.regs.insert(key, (new, 0));
                            });
                        }
                    }
                }
                Op::AdvanceViaAlias { g, t, d } => {
                    if let Meaning::RegAlias(RegKind::Count, idx) = self.meaning(*t) {
                        let old = self.reg(RegKind::Count, idx).0;
                        if let Some(new) = old.checked_add(*d) {
                            if new != i32::MIN {
                                // No space between an active character and `by`: texcraft's
                                // keyword scanner does not skip leading blanks (a scanning
                                // matter outside this property).
                                text.push_str(&format!(
                                    "{}\\advance{}by {} ",
                                    Self::pre(*g),
                                    t.tex_use(),
                                    d
                                ));
                                let glob = self.global(*g, false);
                                self.note_assign(glob, &mut reach);
                                self.write(glob, |l| {
                                    l.regs.insert((RegKind::Count, idx), (new, 0));
                                });
                            }
                        }
                    }
                }
                Op::SetParam { g, p, v } => {
                    text.push_str(&format!("{}{}={} ", Self::pre(*g), p.cmd(), v));
                    let glob = self.global(*g, false);
                    self.note_assign(glob, &mut reach);
                    if *p == Param::GlobalDefs && *v != 0 {
                        reach.push("globaldefs_nonzero");
                    }
                    let (p, v) = (*p, *v);
                    self.write(glob, |l| {
                        l.params.insert(p, v);
                    });
                }
                Op::SetCat { g, ch, v } => {
                    text.push_str(&format!("{}\\catcode{}={} ", Self::pre(*g), ch, v));
                    let glob = self.global(*g, false);
                    self.note_assign(glob, &mut reach);
                    if *ch >= 128 {
                        reach.push("catcode_high_char");
                    }
                    let (ch, v) = (*ch, *v);
                    self.write(glob, |l| {
                        l.cats.insert(ch, v);
                    });
                }
                Op::Def { g, gdef, t, body } => {
                    text.push_str(&format!(
                        "{}{}{}{{{}}}",
                        Self::pre_def(*g, *body),
                        if *gdef { "\\gdef" } else { "\\def" },
                        t.tex(),
                        macro_body(*body)
                    ));
                    let glob = self.global(*g, *gdef);
                    self.note_assign(glob, &mut reach);
                    if matches!(t, Target::Active(_)) {
                        reach.push("active_char_definition");
                        if self.depth() > 0 && !glob {
                            reach.push("active_char_local_in_group");
                        }
                    }
                    self.set_meaning(glob, *t, Meaning::Macro(*body));
                }
                Op::LetCs { g, t, src } => {
                    let m = self.meaning(*src);
                    if m != Meaning::Undefined && m != Meaning::Unknown {
                        text.push_str(&format!(
                            "{}\\let{}={}",
                            Self::pre(*g),
                            t.tex(),
                            src.tex_use()
                        ));
                        let glob = self.global(*g, false);
                        self.note_assign(glob, &mut reach);
                        reach.push("let_copy");
                        self.set_meaning(glob, *t, m);
                    }
                }
                Op::LetUndefined { g, t } => {
                    text.push_str(&format!("{}\\let{}=\\nzundefined ", Self::pre(*g), t.tex()));
                    let glob = self.global(*g, false);
                    self.note_assign(glob, &mut reach);
                    reach.push("let_to_undefined_name");
                    self.set_meaning(glob, *t, Meaning::Unknown);
                }
                Op::LetChar { g, t, c } => {
                    text.push_str(&format!("{}\\let{}={}", Self::pre(*g), t.tex(), c));
                    let glob = self.global(*g, false);
                    self.note_assign(glob, &mut reach);
                    self.set_meaning(glob, *t, Meaning::CharAlias(*c));
                }
                Op::LetPrim { g, t, prim } => {
                    text.push_str(&format!(
                        "{}\\let{}=\\{} ",
                        Self::pre(*g),
                        t.tex(),
                        LET_PRIMS[*prim as usize]
                    ));
                    let glob = self.global(*g, false);
                    self.note_assign(glob, &mut reach);
                    self.set_meaning(glob, *t, Meaning::Prim(*prim));
                }
                Op::LetFont { g, t, font } => {
                    text.push_str(&format!(
                        "{}\\let{}=\\{} ",
                        Self::pre(*g),
                        t.tex(),
                        crate::state::FONT_NAMES[*font as usize - 1]
                    ));
                    let glob = self.global(*g, false);
                    self.note_assign(glob, &mut reach);
                    self.set_meaning(glob, *t, Meaning::Font(*font));
                }
                Op::NewInt { t, id } => {
                    if self.param(Param::GlobalDefs) == 0 {
                        text.push_str(&format!("\\newInt{}", t.tex_use()));
                        self.note_assign(false, &mut reach);
                        reach.push("newint_variable_defined");
                        // The variable's storage is modelled as a count register outside the
                        // real index range, so that assignment, \advance, \let and probes through
                        // the name work as for a \countdef alias.
                        self.set_meaning(false, *t, Meaning::RegAlias(RegKind::Count, 40000 + *id));
                    }
                }
                Op::CountDef { g, t, idx } => {
                    text.push_str(&format!("{}\\countdef{}={} ", Self::pre(*g), t.tex(), idx));
                    let glob = self.global(*g, false);
                    self.note_assign(glob, &mut reach);
                    self.set_meaning(glob, *t, Meaning::RegAlias(RegKind::Count, *idx));
                }
                Op::ToksDef { g, t, idx } => {
                    text.push_str(&format!("{}\\toksdef{}={} ", Self::pre(*g), t.tex(), idx));
                    let glob = self.global(*g, false);
                    self.note_assign(glob, &mut reach);
                    self.set_meaning(glob, *t, Meaning::RegAlias(RegKind::Toks, *idx));
                }
                Op::CharDef { t, n } => {
                    text.push_str(&format!("\\chardef{}={} ", t.tex(), n));
                    let glob = self.global(false, false);
                    self.note_assign(glob, &mut reach);
                    self.set_meaning(glob, *t, Meaning::CharDef(*n));
                }
                Op::Font { g, font } => {
                    text.push_str(&format!(
                        "{}\\{} ",
                        Self::pre(*g),
                        crate::state::FONT_NAMES[*font as usize - 1]
                    ));
                    let glob = self.global(*g, false);
                    self.note_assign(glob, &mut reach);
                    reach.push("font_selected");
                    let f = *font;
                    self.write(glob, |l| l.font = f);
                }
                Op::ReadReg { kind, idx } => {
                    text.push_str(&format!("\\the{}{};", kind.cmd(), idx));
                    out.push_str(&Self::reg_value_text(*kind, self.reg(*kind, *idx)));
                    out.push(';');
                }
                Op::ReadParam { p } => {
                    text.push_str(&format!("\\the{};", p.cmd()));
                    out.push_str(&format!("{};", self.param(*p)));
                }
                Op::ReadCat { ch } => {
                    text.push_str(&format!("\\the\\catcode{};", ch));
                    out.push_str(&format!("{};", self.cat(*ch)));
                }
                Op::Probe { t } => match self.meaning(*t) {
                    Meaning::Unknown => {}
                    Meaning::Undefined => {
                        text.push_str(&t.tex_use());
                        err = Some(ERR_UNDEFINED);
                        reach.push("probe_undefined");
                    }
                    Meaning::Macro(id) => {
                        text.push_str(&format!("{};", t.tex_use()));
                        out.push_str(&format!("{};", macro_body_rendered(id)));
                    }
                    Meaning::CharAlias(c) => {
                        text.push_str(&format!("{};", t.tex_use()));
                        out.push_str(&format!("{c};"));
                    }
                    Meaning::Prim(0) => {
                        text.push_str(&format!("{};", t.tex_use()));
                        out.push(';');
                    }
                    Meaning::Prim(_) => {
                        text.push_str(&format!("{}\\count0;", t.tex_use()));
                        out.push_str(&format!("{};", self.reg(RegKind::Count, 0).0));
                    }
                    Meaning::RegAlias(kind, idx) => {
                        text.push_str(&format!("\\the{};", t.tex_use()));
                        out.push_str(&Self::reg_value_text(kind, self.reg(kind, idx)));
                        out.push(';');
                    }
                    Meaning::CharDef(n) => {
                        text.push_str(&format!("\\the{},{};", t.tex_use(), t.tex_use()));
                        out.push_str(&format!("{},{};", n, n as char));
                    }
                    Meaning::Font(f) => {
                        text.push_str(&format!("{};", t.tex_use()));
                        out.push(';');
                        let glob = self.global(false, false);
                        self.write(glob, |l| l.font = f);
                        reach.push("font_selected_via_alias");
                    }
                },
                Op::Raw(s) => {
                    text.push_str(s);
                    judged = false;
                }
                Op::RawLine(s) => {
                    text.push_str(s);
                    judged = false;
                    bare = true;
                }
            }
        }
        if !bare {
            text.push('%');
        }
        Rendered {
            text,
            expect_out: out,
            expect_err: err,
            expect_font: self.font() as u16,
            judged,
            reach,
            depth_after: self.depth(),
        }
    }

    fn set_meaning(&mut self, glob: bool, t: Target, m: Meaning) {
        self.write(glob, |l| {
            l.meanings.insert(t, m);
        });
    }

    fn note_assign(&self, glob: bool, reach: &mut Vec<&'static str>) {
        let d = self.depth();
        if glob && d >= 2 {
            reach.push("global_assign_at_depth_ge_2");
        }
        if glob && d >= 1 {
            reach.push("global_assign_in_group");
        }
        if !glob && d >= 1 {
            reach.push("local_assign_in_group");
        }
        if d >= 4 {
            reach.push("assign_at_depth_ge_4");
        }
    }

    /// Render a whole program (fresh model).
    pub fn render(program: &Program, year: i32, day: i32) -> Vec<Rendered> {
        let mut m = Model::new(year, day);
        program.lines.iter().map(|l| m.line(l)).collect()
    }
}

/// First line of every modelled job: make `|` an active character (globally, at depth 0).
pub const PREAMBLE: &str = "\\catcode124=13 %";
