//! Generic check runner: seeded search over cases, parallel workers, minimisation, replay files,
//! known findings, evidence.

use crate::outln;
use std::collections::{BTreeMap, BTreeSet};
use std::path::{Path, PathBuf};
use std::sync::atomic::{AtomicU64, AtomicUsize, Ordering};
use std::sync::Mutex;
use std::time::Instant;

use serde::de::DeserializeOwned;
use serde::{Deserialize, Serialize};

use crate::rng;

pub const DEFAULT_SEED: u64 = 20260925;

#[derive(Clone, Copy, Debug, PartialEq, Eq)]
pub enum Tier {
    Quick,
    Thorough,
}

impl Tier {
    pub fn name(self) -> &'static str {
        match self {
            Tier::Quick => "quick",
            Tier::Thorough => "thorough",
        }
    }
}

#[derive(Clone, Debug, PartialEq, Eq, Serialize, Deserialize)]
pub struct Violation {
    /// Stable identifier of the oracle check that failed (the "violation class").
    pub class: String,
    pub detail: String,
}

#[derive(Clone, Debug, Default)]
pub struct Evaluation {
    pub violation: Option<Violation>,
    /// Ids of known findings whose deviation model explains this run.
    pub known: Vec<String>,
    /// Additive counters (fault kinds fired, reach probes, lines executed, comparisons ...).
    pub counters: BTreeMap<String, u64>,
    /// Distinct state feature vectors seen in this run (merged as a set across runs).
    pub states: BTreeSet<String>,
    pub nontrivial: bool,
    /// Deterministic event log of the run (compared by the determinism self-check).
    pub log: String,
    /// Human-readable rendering of the case for the evidence file.
    pub sample: serde_json::Value,
    /// The harness failed while evaluating this case: the check exits 2, whatever else it saw.
    pub harness_error: Option<String>,
}

impl Evaluation {
    pub fn bump(&mut self, k: &str) {
        *self.counters.entry(k.to_string()).or_insert(0) += 1;
    }
    pub fn add(&mut self, k: &str, n: u64) {
        *self.counters.entry(k.to_string()).or_insert(0) += n;
    }
}

pub trait Property: Sync {
    type Case: Serialize + DeserializeOwned + Clone + Send;
    fn id(&self) -> &'static str;
    fn runs(&self, tier: Tier) -> u64;
    fn generate(&self, run_seed: u64, run_index: u64) -> Self::Case;
    fn evaluate(&self, case: &Self::Case) -> Evaluation;
    /// Smaller variants of the case, most aggressive first.
    fn shrink(&self, case: &Self::Case) -> Vec<Self::Case>;
    fn rule(&self) -> String;
    fn assumptions(&self) -> Vec<String>;
    fn components(&self) -> serde_json::Value;
    /// Extra property-specific evidence fields.
    fn extra_evidence(&self, _totals: &BTreeMap<String, u64>) -> serde_json::Value {
        serde_json::Value::Null
    }
    /// Violations found by a companion engine that reports through a side file (C20 tags).
    fn external_violations(&self) -> u64 {
        0
    }
}

#[derive(Clone, Debug, Serialize, Deserialize)]
pub struct ReplayFile<C> {
    pub property: String,
    pub verif_seed: u64,
    pub run_index: u64,
    pub run_seed: u64,
    pub violation: Violation,
    pub minimised: bool,
    pub case: C,
}

#[derive(Clone, Debug, Serialize, Deserialize)]
pub struct KnownFinding {
    pub property: String,
    pub id: String,
    pub what_fails: String,
    /// Path (relative to /verif) of the canonical replay file.
    pub canonical_replay: String,
    /// "deviation-model" or "avoid-rule"
    pub mechanism: String,
    #[serde(default)]
    pub classes: Vec<String>,
}

#[derive(Clone, Debug, Default, Serialize, Deserialize)]
pub struct KnownFindings {
    #[serde(default)]
    pub findings: Vec<KnownFinding>,
    #[serde(default)]
    pub fixed: Vec<String>,
}

pub fn verif_root() -> PathBuf {
    if let Ok(p) = std::env::var("VERIF_ROOT") {
        return PathBuf::from(p);
    }
    // The binary lives in <root>/sim/target/release/texsim.
    let exe = std::env::current_exe().unwrap_or_else(|_| PathBuf::from("/verif/sim/target/release/texsim"));
    let mut p = exe.clone();
    for _ in 0..4 {
        p.pop();
    }
    if p.join("properties.jsonl").exists() {
        p
    } else {
        PathBuf::from("/verif")
    }
}

pub fn load_known_findings() -> KnownFindings {
    let p = verif_root().join("known_findings.json");
    match std::fs::read(&p) {
        Ok(b) => serde_json::from_slice(&b).unwrap_or_else(|e| {
            outln!("HARNESS-ERROR: cannot parse {}: {e}", p.display());
            std::process::exit(2);
        }),
        Err(_) => KnownFindings::default(),
    }
}

pub fn verif_seed() -> u64 {
    match std::env::var("VERIF_SEED") {
        Ok(s) => s.trim().parse::<u64>().unwrap_or_else(|_| {
            // Accept negative or huge numbers by hashing the text.
            rng::fnv(s.as_bytes())
        }),
        Err(_) => DEFAULT_SEED,
    }
}

pub fn workers() -> usize {
    std::env::var("VERIF_WORKERS")
        .ok()
        .and_then(|s| s.parse().ok())
        .unwrap_or_else(|| {
            std::thread::available_parallelism()
                .map(|n| n.get())
                .unwrap_or(8)
        })
}

fn case_hash<C: Serialize>(c: &C) -> u64 {
    rng::fnv(&serde_json::to_vec(c).unwrap())
}

/// Evaluate a case and apply the known-findings policy: a run explained only by a deviation
/// model counts as a known finding if that finding is listed in known_findings.json, and as a
/// violation otherwise (a "fixed:" entry suppresses nothing).
pub fn judge<P: Property>(p: &P, case: &P::Case, allowed: &Policy) -> Evaluation {
    let mut ev = p.evaluate(case);
    // A violation whose class (e.g. a panic site) is listed under a known finding is that finding.
    if let Some(v) = &ev.violation {
        if let Some(id) = allowed.class_to_id.get(&v.class) {
            ev.known.push(id.clone());
            ev.counters
                .entry(format!("known_finding_hits.{id}"))
                .and_modify(|n| *n += 1)
                .or_insert(1);
            ev.violation = None;
        }
    }
    if ev.violation.is_none() {
        if let Some(k) = ev.known.iter().find(|k| !allowed.ids.contains(*k)) {
            ev.violation = Some(Violation {
                class: format!("unlisted-deviation:{k}"),
                detail: format!(
                    "the run matches the deviation model {k}, which is not listed in known_findings.json"
                ),
            });
        }
    }
    ev
}

/// What known_findings.json allows for one property.
#[derive(Clone, Debug, Default)]
pub struct Policy {
    pub ids: BTreeSet<String>,
    pub class_to_id: BTreeMap<String, String>,
}

pub fn allowed_ids(kf: &KnownFindings, property: &str) -> Policy {
    let mut p = Policy::default();
    for f in kf.findings.iter().filter(|f| f.property == property) {
        p.ids.insert(f.id.clone());
        for c in &f.classes {
            p.class_to_id.insert(c.clone(), f.id.clone());
        }
    }
    p
}

struct Shared {
    counters: BTreeMap<String, u64>,
    states: BTreeSet<String>,
    distinct: BTreeSet<u64>,
    samples: BTreeMap<u64, serde_json::Value>,
    known: BTreeMap<String, u64>,
    evaluations: u64,
    nontrivial: u64,
}

/// Greedy delta-debugging: accept any shrink candidate that still fails with the same class.
pub fn minimise<P: Property>(
    p: &P,
    case: &P::Case,
    class: &str,
    budget_evals: usize,
    allowed: &Policy,
) -> (P::Case, usize) {
    let mut cur = case.clone();
    let mut evals = 0;
    let start = Instant::now();
    // Sweep over the candidate list; after a success, regenerate the list for the smaller case and
    // resume at the same position (earlier candidates failed and most likely still do). Repeat
    // sweeps until one makes no progress.
    loop {
        let mut progressed = false;
        let mut k = 0;
        let mut cands = p.shrink(&cur);
        while k < cands.len() {
            if evals >= budget_evals || start.elapsed().as_secs() > 180 {
                return (cur, evals);
            }
            evals += 1;
            let e = judge(p, &cands[k], allowed);
            let same = matches!(&e.violation, Some(v) if v.class == class);
            if same {
                cur = cands[k].clone();
                progressed = true;
                cands = p.shrink(&cur);
                // do not advance k: the list shifted
            } else {
                k += 1;
            }
        }
        if !progressed {
            return (cur, evals);
        }
    }
}

pub fn write_replay<C: Serialize>(dir: &Path, name: &str, rf: &ReplayFile<C>) -> PathBuf {
    let _ = std::fs::create_dir_all(dir);
    let path = dir.join(name);
    std::fs::write(&path, serde_json::to_vec_pretty(rf).unwrap()).unwrap();
    path
}

/// Evaluate a replay file: returns the violation it produces now (if any).
pub fn replay_file<P: Property>(
    p: &P,
    path: &Path,
    allowed: &Policy,
) -> Result<(ReplayFile<P::Case>, Evaluation), String> {
    let b = std::fs::read(path).map_err(|e| format!("read {}: {e}", path.display()))?;
    let rf: ReplayFile<P::Case> =
        serde_json::from_slice(&b).map_err(|e| format!("parse {}: {e}", path.display()))?;
    let e = judge(p, &rf.case, allowed);
    Ok((rf, e))
}

/// Run the replay in a fresh OS process and return the class it reports.
fn replay_in_fresh_process(path: &Path) -> Result<Option<String>, String> {
    let exe = std::env::current_exe().map_err(|e| e.to_string())?;
    let out = std::process::Command::new(exe)
        .arg("replay")
        .arg(path)
        .env("VERIF_REPLAY_QUIET", "1")
        .output()
        .map_err(|e| e.to_string())?;
    let stdout = String::from_utf8_lossy(&out.stdout).to_string();
    for l in stdout.lines() {
        if let Some(rest) = l.strip_prefix("REPLAY-CLASS ") {
            return Ok(Some(rest.trim().to_string()));
        }
        if l.starts_with("REPLAY-CLEAN") {
            return Ok(None);
        }
    }
    Err(format!(
        "replay child gave no verdict (status {:?}): {}",
        out.status.code(),
        stdout
    ))
}

pub struct RunOpts {
    pub tier: Tier,
    pub seed: u64,
    pub runs_override: Option<u64>,
    pub write_evidence: bool,
}

/// The main entry point of a check. Returns the process exit code.
pub fn run_check<P: Property>(p: &P, opts: &RunOpts) -> i32 {
    let start = Instant::now();
    let id = p.id();
    let root = verif_root();
    let total_runs = opts.runs_override.unwrap_or_else(|| p.runs(opts.tier));
    outln!(
        "check {id} tier={} VERIF_SEED={} runs={} workers={}",
        opts.tier.name(),
        opts.seed,
        total_runs,
        workers()
    );

    // 1. Known findings: re-run every canonical replay for this property.
    let kf = load_known_findings();
    let mut known_lines: Vec<String> = vec![];
    let mut known_ids_active: BTreeSet<String> = BTreeSet::new();
    let allowed = allowed_ids(&kf, id);
    for f in kf.findings.iter().filter(|f| f.property == id) {
        let path = root.join(&f.canonical_replay);
        match replay_file(p, &path, &allowed) {
            Err(e) => {
                outln!("HARNESS-ERROR: known finding {}: {e}", f.id);
                return 2;
            }
            Ok((rf, e)) => {
                let still = match &e.violation {
                    Some(v) => v.class == rf.violation.class,
                    None => e.known.contains(&f.id),
                };
                if still {
                    let line = format!("KNOWN-FINDING: property={id} {} [{}]", f.what_fails, f.id);
                    outln!("{line}");
                    known_lines.push(line);
                    known_ids_active.insert(f.id.clone());
                } else {
                    outln!(
                        "note: known finding {} no longer reproduces on this tree (nothing is suppressed for it)",
                        f.id
                    );
                }
            }
        }
    }

    // 1b. Determinism smoke test: the first runs are evaluated twice; a differing event log means
    // the harness lost control of some source of nondeterminism - that is never a verdict.
    for i in 0..16u64.min(total_runs) {
        let case = p.generate(rng::mix(opts.seed, i), i);
        let a = p.evaluate(&case);
        let b = p.evaluate(&case);
        if a.log != b.log || a.violation != b.violation {
            outln!("HARNESS-ERROR: run {i} is not deterministic (two evaluations of the same case differ)");
            return 2;
        }
    }

    // 2. Seeded search.
    let next = AtomicU64::new(0);
    let limit = AtomicU64::new(total_runs);
    let found: Mutex<BTreeMap<u64, (P::Case, Violation)>> = Mutex::new(BTreeMap::new());
    let shared = Mutex::new(Shared {
        counters: BTreeMap::new(),
        states: BTreeSet::new(),
        distinct: BTreeSet::new(),
        samples: BTreeMap::new(),
        known: BTreeMap::new(),
        evaluations: 0,
        nontrivial: 0,
    });
    let busy = AtomicUsize::new(0);
    let wall_cap_s: u64 = std::env::var("VERIF_WALL_CAP_S")
        .ok()
        .and_then(|s| s.parse().ok())
        .unwrap_or(match opts.tier {
            Tier::Quick => 1500,
            Tier::Thorough => 6 * 3600,
        });
    let capped = AtomicU64::new(0);
    let harness_errors: Mutex<Vec<String>> = Mutex::new(vec![]);
    std::thread::scope(|s| {
        for _ in 0..workers() {
            s.spawn(|| {
                busy.fetch_add(1, Ordering::SeqCst);
                // Local accumulation, merged every few runs to keep the lock cold.
                let mut local: Vec<(u64, u64, Evaluation)> = vec![];
                loop {
                    let i = next.fetch_add(1, Ordering::SeqCst);
                    if i >= limit.load(Ordering::SeqCst) {
                        break;
                    }
                    if start.elapsed().as_secs() > wall_cap_s {
                        capped.store(1, Ordering::SeqCst);
                        break;
                    }
                    let run_seed = rng::mix(opts.seed, i);
                    let case = p.generate(run_seed, i);
                    let ev = judge(p, &case, &allowed);
                    if let Some(h) = &ev.harness_error {
                        harness_errors.lock().unwrap().push(format!("run {i}: {h}"));
                    }
                    if let Some(v) = &ev.violation {
                        let mut f = found.lock().unwrap();
                        f.insert(i, (case.clone(), v.clone()));
                        // Keep exploring only below the smallest failing index, so that the
                        // reported violation is a function of (tree, seed, tier).
                        let mut cur = limit.load(Ordering::SeqCst);
                        while i < cur {
                            match limit.compare_exchange(cur, i, Ordering::SeqCst, Ordering::SeqCst) {
                                Ok(_) => break,
                                Err(c) => cur = c,
                            }
                        }
                    }
                    local.push((i, case_hash(&case), ev));
                    if local.len() >= 64 {
                        merge(&shared, &mut local);
                    }
                }
                merge(&shared, &mut local);
                busy.fetch_sub(1, Ordering::SeqCst);
            });
        }
    });
    if let Some(h) = harness_errors.lock().unwrap().first() {
        outln!("HARNESS-ERROR: {h}");
        return 2;
    }
    if capped.load(Ordering::SeqCst) != 0 {
        outln!("HARNESS-ERROR: wall-clock cap of {wall_cap_s}s hit before the run count was reached");
        return 2;
    }

    let sh = shared.into_inner().unwrap();
    let found = found.into_inner().unwrap();
    let mut exit = 0;
    let mut violation_count = 0;
    let mut violation_info = serde_json::Value::Null;

    // 3. Violations: minimise, write the replay file, confirm in a fresh process.
    if let Some((idx, (case, v))) = found.iter().next() {
        violation_count = found.len();
        outln!(
            "violation at run {idx} (run seed {}): class={} detail={}",
            rng::mix(opts.seed, *idx),
            v.class,
            v.detail
        );
        let (min_case, evals) = minimise(p, case, &v.class, 3000, &allowed);
        let min_eval = judge(p, &min_case, &allowed);
        let min_v = min_eval.violation.clone().unwrap_or_else(|| v.clone());
        outln!("minimised with {evals} evaluations: {}", min_v.detail);
        let rf = ReplayFile {
            property: id.to_string(),
            verif_seed: opts.seed,
            run_index: *idx,
            run_seed: rng::mix(opts.seed, *idx),
            violation: min_v.clone(),
            minimised: true,
            case: min_case,
        };
        let name = format!("{id}-{}-{}.json", opts.seed, idx);
        let path = write_replay(&root.join("replays"), &name, &rf);
        match replay_in_fresh_process(&path) {
            Ok(Some(c)) if c == min_v.class => {
                outln!("VIOLATION property={id} replay={}", path.display());
                exit = 1;
            }
            Ok(other) => {
                outln!(
                    "HARNESS-ERROR: replay in a fresh process gave {:?}, expected class {}",
                    other, min_v.class
                );
                return 2;
            }
            Err(e) => {
                outln!("HARNESS-ERROR: {e}");
                return 2;
            }
        }
        violation_info = serde_json::json!({
            "run_index": idx, "class": min_v.class, "detail": min_v.detail,
            "replay": path.display().to_string(),
            "sample": min_eval.sample,
        });
    }

    // 4. Evidence.
    let wall = start.elapsed().as_secs_f64();
    if opts.write_evidence {
        let samples: Vec<serde_json::Value> = sh.samples.values().take(3).cloned().collect();
        let mut coverage = serde_json::json!({
            "evaluations": sh.evaluations,
            "distinct_nontrivial": sh.distinct.len(),
            "rule": p.rule(),
            "samples": samples,
            "nontrivial_runs": sh.nontrivial,
            "runs_per_hour": if wall > 0.0 { (sh.evaluations as f64 / wall * 3600.0) as u64 } else { 0 },
            "seeds_per_hour": if wall > 0.0 { (sh.evaluations as f64 / wall * 3600.0) as u64 } else { 0 },
            "counters": sh.counters,
            "distinct_states": sh.states.len(),
            "states_measure": "distinct feature vectors (e.g. restore depth x open conditionals x open streams x format), see rule",
            "simulated_time": "not applicable: nothing in the simulated system has timers or deadlines (the wall clock is read once at boot and is a job input); progress is counted in executed lines, checkpoints and restarts (see counters)",
            "known_findings_matched_in_search": sh.known,
            "known_finding_lines": known_lines,
            "components": p.components(),
            "violation": violation_info,
            "workers": workers(),
        });
        let extra = p.extra_evidence(&sh.counters);
        if let (Some(obj), serde_json::Value::Object(ex)) = (coverage.as_object_mut(), extra) {
            for (k, v) in ex {
                obj.insert(k, v);
            }
        }
        let ev = serde_json::json!({
            "property_id": id,
            "tier": opts.tier.name(),
            "seed": opts.seed,
            "level": "exploration",
            "coverage": coverage,
            "assumptions": p.assumptions(),
            "wall_s": wall,
            "violations": violation_count as u64 + p.external_violations(),
        });
        let dir = root.join("evidence");
        let _ = std::fs::create_dir_all(&dir);
        std::fs::write(
            dir.join(format!("{id}.json")),
            serde_json::to_vec_pretty(&ev).unwrap(),
        )
        .unwrap();
    }
    outln!(
        "{id}: {} runs, {} non-trivial ({} distinct), {} violations, {:.1}s",
        sh.evaluations,
        sh.nontrivial,
        sh.distinct.len(),
        violation_count,
        wall
    );
    exit
}

fn merge(shared: &Mutex<Shared>, local: &mut Vec<(u64, u64, Evaluation)>) {
    if local.is_empty() {
        return;
    }
    let mut sh = shared.lock().unwrap();
    for (i, h, ev) in local.drain(..) {
        sh.evaluations += 1;
        for (k, v) in ev.counters {
            *sh.counters.entry(k).or_insert(0) += v;
        }
        for s in ev.states {
            sh.states.insert(s);
        }
        for k in ev.known {
            *sh.known.entry(k).or_insert(0) += 1;
        }
        if ev.nontrivial {
            sh.nontrivial += 1;
            sh.distinct.insert(h);
            if sh.samples.len() < 3 || sh.samples.keys().next_back().is_some_and(|m| i < *m) {
                sh.samples.insert(i, ev.sample);
                while sh.samples.len() > 3 {
                    let last = *sh.samples.keys().next_back().unwrap();
                    sh.samples.remove(&last);
                }
            }
        }
    }
}

/// `texsim replay <file>`: evaluate in this (fresh) process and print the verdict.
pub fn replay_main<P: Property>(p: &P, path: &Path) -> i32 {
    let allowed = allowed_ids(&load_known_findings(), p.id());
    match replay_file(p, path, &allowed) {
        Err(e) => {
            outln!("HARNESS-ERROR: {e}");
            2
        }
        Ok((rf, e)) => {
            let quiet = std::env::var("VERIF_REPLAY_QUIET").is_ok();
            if !quiet {
                outln!("{}", serde_json::to_string_pretty(&e.sample).unwrap());
                outln!("--- event log ---\n{}", e.log);
            }
            match e.violation {
                Some(v) => {
                    outln!("REPLAY-CLASS {}", v.class);
                    outln!("detail: {}", v.detail);
                    if v.class == rf.violation.class {
                        outln!("VIOLATION property={} replay={}", rf.property, path.display());
                        1
                    } else {
                        outln!("note: recorded class was {}", rf.violation.class);
                        1
                    }
                }
                None => {
                    outln!("REPLAY-CLEAN");
                    if !e.known.is_empty() {
                        outln!("known findings matched: {:?}", e.known);
                    }
                    0
                }
            }
        }
    }
}

/// Determinism self-check: evaluate `n` seeds twice in this process (different worker counts) and
/// once more in a child OS process, and compare the event-log hashes.
pub fn selfcheck<P: Property>(p: &P, seed: u64, n: u64, child: bool) -> Result<Vec<u64>, String> {
    let eval_all = |w: usize| -> Vec<u64> {
        let next = AtomicU64::new(0);
        let out = Mutex::new(vec![0u64; n as usize]);
        std::thread::scope(|s| {
            for _ in 0..w {
                s.spawn(|| loop {
                    let i = next.fetch_add(1, Ordering::SeqCst);
                    if i >= n {
                        break;
                    }
                    let case = p.generate(rng::mix(seed, i), i);
                    let e = p.evaluate(&case);
                    let h = rng::fnv(e.log.as_bytes()) ^ case_hash(&case);
                    out.lock().unwrap()[i as usize] = h;
                });
            }
        });
        out.into_inner().unwrap()
    };
    let a = eval_all(workers());
    if child {
        return Ok(a);
    }
    let b = eval_all(1.max(workers() / 5));
    for i in 0..n as usize {
        if a[i] != b[i] {
            return Err(format!("{}: run {i} differs between worker counts", p.id()));
        }
    }
    let exe = std::env::current_exe().map_err(|e| e.to_string())?;
    let out = std::process::Command::new(exe)
        .args(["selfcheck-child", p.id(), &seed.to_string(), &n.to_string()])
        .output()
        .map_err(|e| e.to_string())?;
    let text = String::from_utf8_lossy(&out.stdout);
    let c: Vec<u64> = text
        .lines()
        .filter_map(|l| l.strip_prefix("H "))
        .filter_map(|l| l.parse().ok())
        .collect();
    if c.len() != n as usize {
        return Err(format!("{}: child returned {} hashes, expected {n}", p.id(), c.len()));
    }
    for i in 0..n as usize {
        if a[i] != c[i] {
            return Err(format!("{}: run {i} differs between OS processes", p.id()));
        }
    }
    Ok(a)
}


/// Development aid: evaluate `n` cases and tally every violation class (no early stop, no files).
pub fn survey<P: Property>(p: &P, seed: u64, n: u64) {
    let policy = allowed_ids(&load_known_findings(), p.id());
    let first: u64 = std::env::var("VERIF_FIRST_RUN").ok().and_then(|s| s.parse().ok()).unwrap_or(0);
    let trace_runs = std::env::var("VERIF_TRACE_RUNS").is_ok();
    let next = AtomicU64::new(first);
    let n = first + n;
    let tally: Mutex<BTreeMap<String, (u64, u64, String)>> = Mutex::new(BTreeMap::new());
    std::thread::scope(|s| {
        for _ in 0..workers() {
            s.spawn(|| loop {
                let i = next.fetch_add(1, Ordering::SeqCst);
                if i >= n {
                    break;
                }
                if trace_runs {
                    eprintln!("run {i}");
                }
                let case = p.generate(rng::mix(seed, i), i);
                let ev = judge(p, &case, &policy);
                if let Some(v) = ev.violation {
                    let mut t = tally.lock().unwrap();
                    let e = t.entry(v.class.clone()).or_insert((0, i, v.detail.clone()));
                    e.0 += 1;
                    if i < e.1 {
                        e.1 = i;
                        e.2 = v.detail;
                    }
                }
            });
        }
    });
    let t = tally.into_inner().unwrap();
    outln!("survey {}: {n} runs, {} violation classes", p.id(), t.len());
    for (c, (k, i, d)) in t {
        let d: String = d.chars().take(300).collect();
        outln!("{k:>7}  {c}\n         first at run {i}: {d}");
    }
}
