//! Line driver: boots or restores a VM inside the current simulated process, feeds it lines with
//! the REPL's protocol (`clear_sources(); push_source(); run()`), and records what is observable.

use std::cell::RefCell;
use std::path::PathBuf;
use std::rc::Rc;

use serde::{Deserialize, Serialize};
use texlang::error;
use texlang::token::trace;
use texlang::vm;

use crate::process::{catch, Caught};
use crate::state::*;

#[derive(Clone, Copy, Debug, PartialEq, Eq, PartialOrd, Ord, Serialize, Deserialize)]
pub enum Format {
    Json,
    MessagePack,
    Bincode,
}

impl Format {
    pub const ALL: [Format; 3] = [Format::Json, Format::MessagePack, Format::Bincode];
    pub fn name(self) -> &'static str {
        match self {
            Format::Json => "json",
            Format::MessagePack => "msgpack",
            Format::Bincode => "bincode",
        }
    }
}

/// Where an error points to, in terms that are comparable across processes.
#[derive(Clone, Debug, PartialEq, Eq, Serialize, Deserialize)]
pub struct Position {
    pub origin: String,
    pub line_number: usize,
    pub index: usize,
    pub line_content: String,
    pub value: String,
}

impl Position {
    fn new(t: &trace::SourceCodeTrace) -> Position {
        Position {
            origin: match &t.origin {
                trace::Origin::File(p) => p.display().to_string(),
                trace::Origin::Terminal => "<terminal>".into(),
            },
            line_number: t.line_number,
            index: t.index,
            line_content: t.line_content.clone(),
            value: t.value.clone(),
        }
    }
}

/// Signature of a structured error: what must be equal between a reference run and a restored run.
/// Notes are excluded on purpose: the "did you mean" note breaks ties in hash order.
#[derive(Clone, Debug, PartialEq, Eq, Serialize, Deserialize)]
pub struct ErrSig {
    pub kind: String,
    pub title: String,
    pub position: Option<Position>,
    pub stack: Vec<(String, Option<Position>)>,
    /// Whether `format!("{e}")` returned (true) or panicked (false), and the panic if any.
    pub renders: bool,
    pub render_panic: Option<(String, String)>,
    pub rendered_len_nonzero: bool,
}

impl ErrSig {
    pub fn located(&self) -> bool {
        self.position.is_some() || !self.stack.is_empty()
    }
}

pub fn err_sig(e: &error::TracedTexError) -> ErrSig {
    let kind = match e.error.kind() {
        error::Kind::Token(_) => "token",
        error::Kind::EndOfInput => "end-of-input",
        error::Kind::FailedPrecondition => "failed-precondition",
    }
    .to_string();
    let position = match e.error.kind() {
        error::Kind::Token(t) => e.token_traces.get(&t).map(Position::new),
        error::Kind::EndOfInput => e.end_of_input_trace.as_ref().map(Position::new),
        error::Kind::FailedPrecondition => e
            .error
            .source_code_trace_override()
            .map(Position::new)
            .or_else(|| e.stack_trace.last().map(|s| Position::new(&s.trace))),
    };
    let stack = e
        .stack_trace
        .iter()
        .map(|s| (format!("{:?}", s.context), Some(Position::new(&s.trace))))
        .collect();
    let (renders, render_panic, rendered_len_nonzero) = match catch(|| format!("{e}")) {
        Caught::Ok(s) => (true, None, !s.is_empty()),
        Caught::Budget => (false, Some(("budget".into(), "".into())), false),
        Caught::Panic { location, message } => (false, Some((location, message)), false),
    };
    ErrSig {
        kind,
        title: e.error.title(),
        position,
        stack,
        renders,
        render_panic,
        rendered_len_nonzero,
    }
}

#[derive(Clone, Debug, PartialEq, Eq, Serialize, Deserialize)]
pub enum LineResult {
    Ok,
    Err(ErrSig),
    Panic { location: String, message: String },
    Budget,
}

impl LineResult {
    pub fn short(&self) -> String {
        match self {
            LineResult::Ok => "ok".into(),
            LineResult::Err(e) => format!("err[{}: {}]", e.kind, e.title),
            LineResult::Panic { location, message } => format!("PANIC[{location}: {message}]"),
            LineResult::Budget => "budget".into(),
        }
    }
}

/// Everything observable about the execution of one line.
#[derive(Clone, Debug, PartialEq, Eq, Serialize, Deserialize)]
pub struct LineObs {
    pub out: String,
    pub result: LineResult,
    pub term_out: String,
    pub log: String,
    pub prompts: Vec<Option<String>>,
    pub term_lines_consumed: usize,
    pub font: u16,
    pub font_events: Vec<u16>,
    /// Depth of the execution stack after the line (must be 0).
    pub exec_stack: usize,
    pub num_sources_after: usize,
    /// The line was cut off by the budget on file reads without a single macro expansion: an
    /// `\input` recursion that the nesting limit should have stopped.
    #[serde(default)]
    pub runaway_input: bool,
}

/// Remove text that legitimately depends on the hash universe of the process.
pub fn normalise_log(s: &str) -> String {
    s.lines()
        .filter(|l| !l.contains("did you mean"))
        .collect::<Vec<_>>()
        .join("\n")
}

#[derive(Clone, Debug, Serialize, Deserialize, PartialEq, Eq)]
pub struct Clock {
    pub minutes: i32,
    pub day: i32,
    pub month: i32,
    pub year: i32,
}

impl Default for Clock {
    fn default() -> Self {
        Clock {
            minutes: 600,
            day: 25,
            month: 9,
            year: 2026,
        }
    }
}

/// Job input that belongs to the environment: files, terminal script, fault plans.
#[derive(Clone, Debug, Default, Serialize, Deserialize, PartialEq, Eq)]
pub struct EnvSpec {
    pub files: Vec<(String, Vec<u8>)>,
    pub terminal: Vec<String>,
    pub fs_read_faults: Vec<(u64, IoFault)>,
    pub term_faults: Vec<(u64, IoFault)>,
    /// Files (relative names) that exist but fail to read with this error.
    #[serde(default)]
    pub unreadable: Vec<(String, IoFault)>,
    /// Ordinals of `write_bytes` calls (per process) that fail, e.g. disk full during `\dump`.
    #[serde(default)]
    pub fs_write_faults: Vec<(u64, IoFault)>,
    /// Environment events: before job line `.0` is executed, file `.1` is replaced by `.2` (someone
    /// edits a file between two prompt lines). A process that starts at a later line sees every
    /// replacement that was due before it.
    #[serde(default)]
    pub file_updates: Vec<(usize, String, Vec<u8>)>,
    /// Environment fault: the process cannot determine its working directory (the directory it
    /// was started in has been removed): `VM.working_directory` is `None`.
    #[serde(default)]
    pub no_working_directory: bool,
}

pub struct VmProc {
    pub vm: Box<vm::VM<SimState>>,
    pub line_counter: usize,
}

/// Position of the job in its environment's I/O history; snapshotted with every checkpoint and
/// rewound on restart so that re-executed lines see the same environment again.
#[derive(Clone, Copy, Debug, Default, Serialize, Deserialize, PartialEq, Eq)]
pub struct EnvCursor {
    pub term_cursor: usize,
    pub term_calls: u64,
    pub fs_reads: u64,
}

fn attach_env(vm: &mut vm::VM<SimState>, spec: &EnvSpec, cursor: &EnvCursor) {
    vm.working_directory = if spec.no_working_directory {
        None
    } else {
        Some(PathBuf::from(SIM_CWD))
    };
    let mut font_refs = vec![];
    for (i, name) in FONT_NAMES.iter().enumerate() {
        let cs = vm.cs_name_interner_mut().get_or_intern(name);
        font_refs.push((i as u16 + 1, texlang::token::CommandRef::ControlSequence(cs)));
    }
    // The null font has no selector among the built-ins; `\the` of it falls back to \fontA's slot
    // never: leave it unmapped (the repository unwraps, which is a C09 matter, not generated).
    vm.state.env.font_refs = font_refs;
    let fs = SimFs::default();
    for (name, content) in &spec.files {
        fs.add(name, content);
    }
    *fs.read_faults.borrow_mut() = spec.fs_read_faults.iter().cloned().collect();
    fs.reads.set(cursor.fs_reads);
    *fs.write_faults.borrow_mut() = spec.fs_write_faults.iter().cloned().collect();
    for (name, f) in &spec.unreadable {
        let mut p = PathBuf::from(SIM_CWD);
        p.push(name);
        fs.unreadable.borrow_mut().insert(p, *f);
    }
    vm.state.env.fs = Rc::new(RefCell::new(fs));
    let term = SimTerminal {
        lines: spec.terminal.clone(),
        cursor: cursor.term_cursor,
        calls: cursor.term_calls,
        faults: spec.term_faults.iter().cloned().collect(),
        ..Default::default()
    };
    let term = Rc::new(RefCell::new(term));
    vm.state.env.term = term.clone();
    vm.state.error_mode.set_default_terminal(term);
}

impl VmProc {
    /// Cold boot.
    pub fn boot(spec: &EnvSpec, clock: &Clock) -> VmProc {
        let mut vm = Box::new(vm::VM::<SimState>::new_with_built_in_commands(
            sim_built_ins(),
        ));
        vm.state.time = texlang_stdlib::time::Component::new_with_values(
            clock.minutes,
            clock.day,
            clock.month,
            clock.year,
        );
        attach_env(&mut vm, spec, &EnvCursor::default());
        VmProc {
            vm,
            line_counter: 0,
        }
    }

    /// Restore from checkpoint bytes. Panics inside deserialisation are reported as `Err`.
    pub fn restore(
        format: Format,
        bytes: &[u8],
        spec: &EnvSpec,
        cursor: &EnvCursor,
        extra_files: &[(PathBuf, Vec<u8>)],
        line_counter: usize,
    ) -> Result<VmProc, String> {
        let r = catch(|| -> Result<Box<vm::VM<SimState>>, String> {
            match format {
                Format::Json => {
                    let mut d = serde_json::Deserializer::from_slice(bytes);
                    vm::VM::deserialize_with_built_in_commands(&mut d, sim_built_ins())
                        .map(Box::new)
                        .map_err(|e| format!("json: {e}"))
                }
                Format::MessagePack => {
                    let mut d = rmp_serde::decode::Deserializer::from_read_ref(bytes);
                    vm::VM::deserialize_with_built_in_commands(&mut d, sim_built_ins())
                        .map(Box::new)
                        .map_err(|e| format!("msgpack: {e}"))
                }
                Format::Bincode => {
                    let d: Result<(Box<vm::serde::DeserializedVM<SimState>>, usize), _> =
                        bincode::serde::decode_from_slice(bytes, bincode::config::standard());
                    match d {
                        Ok((d, _)) => Ok(Box::new(vm::serde::finish_deserialization(
                            d,
                            sim_built_ins(),
                        ))),
                        Err(e) => Err(format!("bincode: {e}")),
                    }
                }
            }
        });
        let mut vm = match r {
            Caught::Ok(Ok(vm)) => vm,
            Caught::Ok(Err(e)) => return Err(format!("deserialise error: {e}")),
            Caught::Budget => return Err("budget in deserialise".into()),
            Caught::Panic { location, message } => {
                return Err(format!("deserialise panic at {location}: {message}"))
            }
        };
        attach_env(&mut vm, spec, cursor);
        for (p, b) in extra_files {
            vm.state
                .env
                .fs
                .borrow()
                .files
                .borrow_mut()
                .insert(p.clone(), b.clone());
        }
        Ok(VmProc { vm, line_counter })
    }

    pub fn checkpoint(&self, format: Format) -> Result<Vec<u8>, String> {
        let vm = &self.vm;
        let r = catch(|| -> Result<Vec<u8>, String> {
            match format {
                Format::Json => serde_json::to_vec(vm.as_ref()).map_err(|e| format!("json: {e}")),
                Format::MessagePack => {
                    rmp_serde::to_vec(vm.as_ref()).map_err(|e| format!("msgpack: {e}"))
                }
                Format::Bincode => {
                    bincode::serde::encode_to_vec(vm.as_ref(), bincode::config::standard())
                        .map_err(|e| format!("bincode: {e}"))
                }
            }
        });
        match r {
            Caught::Ok(r) => r.map_err(|e| format!("serialise error: {e}")),
            Caught::Budget => Err("budget in serialise".into()),
            Caught::Panic { location, message } => {
                Err(format!("serialise panic at {location}: {message}"))
            }
        }
    }

    pub fn env_cursor(&self) -> EnvCursor {
        let t = self.vm.state.env.term.borrow();
        EnvCursor {
            term_cursor: t.cursor,
            term_calls: t.calls,
            fs_reads: self.vm.state.env.fs.borrow().reads.get(),
        }
    }

    /// Files currently in the simulated file system (for rewinding on restart).
    pub fn fs_snapshot(&self) -> Vec<(PathBuf, Vec<u8>)> {
        self.vm
            .state
            .env
            .fs
            .borrow()
            .files
            .borrow()
            .iter()
            .map(|(k, v)| (k.clone(), v.clone()))
            .collect()
    }

    /// Execute one line with the REPL protocol and record the observables.
    /// Apply the file replacements that are due before job line `line` (idempotent: the newest
    /// replacement per file that is due wins).
    pub fn apply_file_updates(&mut self, updates: &[(usize, String, Vec<u8>)], line: usize) {
        if updates.is_empty() {
            return;
        }
        let fs = self.vm.state.env.fs.clone();
        let fs = fs.borrow();
        for (at, name, content) in updates.iter() {
            if *at <= line {
                fs.add(name, content);
            }
        }
    }

    pub fn exec_line(&mut self, text: &str) -> LineObs {
        let vm = &mut self.vm;
        // The name a source is registered under: a path, as `texcraft run` does, or - every third
        // line - the empty name, as the repository's REPL does for what is typed at its prompt.
        let name = if self.line_counter % 3 == 2 {
            String::new()
        } else {
            format!("{SIM_CWD}/job.tex")
        };
        self.line_counter += 1;
        {
            let env = &mut vm.state.env;
            env.tokens.clear();
            env.font_events.clear();
            env.expansions.set(0);
            env.term_out.borrow_mut().0.clear();
            env.log.borrow_mut().0.clear();
            env.term.borrow_mut().prompts.clear();
            env.fs.borrow().writes.set(0);
            env.fs.borrow().line_reads.set(0);
            env.fs.borrow().read_budget_tripped.set(false);
            env.recovered_errors.set(0);
        }
        let cursor_before = vm.state.env.term.borrow().cursor;
        let r = catch(|| {
            vm.clear_sources();
            let _ = vm.push_source(name, text);
            vm.run::<SinkHandlers>()
        });
        let result = match r {
            Caught::Ok(Ok(())) => LineResult::Ok,
            Caught::Ok(Err(e)) => LineResult::Err(err_sig(&e)),
            Caught::Budget => LineResult::Budget,
            Caught::Panic { location, message } => LineResult::Panic { location, message },
        };
        let out = render_tokens(&vm.state.env.tokens, vm.cs_name_interner());
        let term_out = normalise_log(&String::from_utf8_lossy(&vm.state.env.term_out.borrow().0));
        let log = normalise_log(&String::from_utf8_lossy(&vm.state.env.log.borrow().0));
        let prompts = vm.state.env.term.borrow().prompts.clone();
        let cursor_after = vm.state.env.term.borrow().cursor;
        LineObs {
            out,
            result,
            term_out,
            log,
            prompts,
            term_lines_consumed: cursor_after - cursor_before,
            font: vm.current_font().0,
            font_events: vm.state.env.font_events.clone(),
            exec_stack: vm.generate_stack_trace().len(),
            num_sources_after: vm.num_current_sources(),
            runaway_input: vm.state.env.fs.borrow().read_budget_tripped.get()
                && vm.state.env.expansions.get() == 0,
        }
    }
}
