//! C20 (a)-(c): scoped map, interner and streaming matcher against executable reference models,
//! with "rebuild / restart in a new simulated process" (new hash universe) as one more operation.
//! Sub-claim (d), tags under threads, lives in the shuttle-tags crate.

use std::collections::BTreeMap;
use std::hash::{BuildHasher, BuildHasherDefault, Hasher};

use serde::{Deserialize, Serialize};
use texcraft_stdext::algorithms::substringsearch::Matcher;
use texcraft_stdext::collections::groupingmap::{
    BackingContainer, GroupingContainer, GroupingHashMap, GroupingVec, Item, Scope,
};
use texcraft_stdext::collections::interner::Interner;
use texcraft_stdext::collections::nevec::Nevec;

use crate::check::*;
use crate::process;
use crate::rng::Rng;

#[derive(Clone, Debug, Serialize, Deserialize, PartialEq, Eq)]
pub enum MapOp {
    Insert { k: u8, v: u32, global: bool },
    /// `extend()` with these pairs: documented as local inserts.
    Extend(Vec<(u8, u32)>),
    Begin,
    End,
    /// Rebuild by replaying `iter_all()` through `FromIterator`, in a new process.
    RebuildIterAll { hash_seed: u64 },
    /// Rebuild by a serde JSON round trip, in a new process.
    RebuildSerde { hash_seed: u64 },
}

#[derive(Clone, Copy, Debug, Serialize, Deserialize, PartialEq, Eq)]
pub enum MapKind {
    Hash,
    Vec,
}

#[derive(Clone, Copy, Debug, Serialize, Deserialize, PartialEq, Eq)]
pub enum HasherKind {
    Random,
    Constant,
    TwoBit,
}

#[derive(Clone, Debug, Serialize, Deserialize, PartialEq, Eq)]
pub enum InternOp {
    GetOrIntern(u16),
    Get(u16),
    ResolveAll,
    Restart { hash_seed: u64 },
}

#[derive(Clone, Debug, Serialize, Deserialize)]
pub enum Case {
    Map {
        kind: MapKind,
        nkeys: u8,
        first_hash_seed: u64,
        ops: Vec<MapOp>,
    },
    Interner {
        hasher: HasherKind,
        strings: Vec<String>,
        first_hash_seed: u64,
        ops: Vec<InternOp>,
    },
    Matcher {
        pattern: Vec<u8>,
        texts: Vec<Vec<u8>>,
        /// Round-trip the matcher through JSON in a new process before the k-th text.
        restart_before: Option<(usize, u64)>,
    },
}

pub struct C20;

fn tags_side_file() -> Option<serde_json::Value> {
    let p = std::env::var("VERIF_C20_TAGS").ok()?;
    let b = std::fs::read(p).ok()?;
    serde_json::from_slice(&b).ok()
}

// ---------------------------------------------------------------- scoped map

type Items = Vec<Option<(usize, u32)>>; // None = BeginGroup

#[derive(Clone, Debug, Default)]
struct MapModel {
    stack: Vec<BTreeMap<usize, u32>>,
}

impl MapModel {
    fn new() -> Self {
        MapModel {
            stack: vec![BTreeMap::new()],
        }
    }
    fn insert(&mut self, k: usize, v: u32, global: bool) {
        if global {
            for l in self.stack.iter_mut() {
                l.insert(k, v);
            }
        } else {
            self.stack.last_mut().unwrap().insert(k, v);
        }
    }
    fn begin(&mut self) {
        let t = self.stack.last().unwrap().clone();
        self.stack.push(t);
    }
    fn end(&mut self) -> bool {
        if self.stack.len() == 1 {
            false
        } else {
            self.stack.pop();
            true
        }
    }
    fn top(&self) -> &BTreeMap<usize, u32> {
        self.stack.last().unwrap()
    }
}

struct SegResult {
    violation: Option<Violation>,
    model: MapModel,
    carry: Carry,
    stats: BTreeMap<&'static str, u64>,
    log: String,
}

enum Carry {
    None,
    Items(Items),
    Json(String),
}

fn check_map<T: BackingContainer<usize, u32>>(
    map: &GroupingContainer<usize, u32, T>,
    model: &MapModel,
    nkeys: usize,
    step: usize,
    what: &str,
) -> Option<Violation> {
    for k in 0..nkeys {
        let k = rk(k as u8);
        let got = map.get(&k).copied();
        let want = model.top().get(&k).copied();
        if got != want {
            return Some(Violation {
                class: "c20:map:get".into(),
                detail: format!("after op {step} ({what}): get({k}) = {got:?}, model {want:?}"),
            });
        }
    }
    if map.len() != model.top().len() {
        return Some(Violation {
            class: "c20:map:len".into(),
            detail: format!(
                "after op {step} ({what}): len() = {}, model {}",
                map.len(),
                model.top().len()
            ),
        });
    }
    if map.is_empty() != model.top().is_empty() {
        return Some(Violation {
            class: "c20:map:is_empty".into(),
            detail: format!(
                "after op {step} ({what}): is_empty() = {}, model has {} visible keys",
                map.is_empty(),
                model.top().len()
            ),
        });
    }
    let mut visible: Vec<(usize, u32)> = map.iter().map(|(k, v)| (k, *v)).collect();
    visible.sort();
    let want: Vec<(usize, u32)> = model.top().iter().map(|(k, v)| (*k, *v)).collect();
    if visible != want {
        return Some(Violation {
            class: "c20:map:iter".into(),
            detail: format!("after op {step} ({what}): iter() = {visible:?}, model {want:?}"),
        });
    }
    None
}

/// Check that `iter_all` describes the model's whole stack: replaying it on a fresh model must
/// give the same stack of snapshots.
fn check_iter_all(items: &Items, model: &MapModel, step: usize) -> Option<Violation> {
    let mut m = MapModel::new();
    for it in items {
        match it {
            None => m.begin(),
            Some((k, v)) => m.insert(*k, *v, false),
        }
    }
    if m.stack != model.stack {
        return Some(Violation {
            class: "c20:map:iter_all".into(),
            detail: format!(
                "at op {step}: iter_all() replays to {:?}, model stack is {:?}",
                m.stack, model.stack
            ),
        });
    }
    None
}

fn run_map_segment<T>(
    carry: Carry,
    mut model: MapModel,
    ops: Vec<MapOp>,
    nkeys: usize,
    base_step: usize,
) -> SegResult
where
    T: BackingContainer<usize, u32> + Serialize + for<'de> Deserialize<'de>,
{
    let mut stats: BTreeMap<&'static str, u64> = BTreeMap::new();
    let mut log = String::new();
    let mut map: GroupingContainer<usize, u32, T> = match carry {
        Carry::None => Default::default(),
        Carry::Items(items) => items
            .into_iter()
            .map(|it| match it {
                None => Item::BeginGroup,
                Some(kv) => Item::Value(kv),
            })
            .collect(),
        Carry::Json(s) => match serde_json::from_str(&s) {
            Ok(m) => m,
            Err(e) => {
                return SegResult {
                    violation: Some(Violation {
                        class: "c20:map:serde".into(),
                        detail: format!("deserialise failed: {e}"),
                    }),
                    model,
                    carry: Carry::None,
                    stats,
                    log,
                }
            }
        },
    };
    if base_step > 0 {
        if let Some(v) = check_map(&map, &model, nkeys, base_step, "rebuild") {
            return SegResult {
                violation: Some(v),
                model,
                carry: Carry::None,
                stats,
                log,
            };
        }
    }
    let mut carry_out = Carry::None;
    for (i, op) in ops.iter().enumerate() {
        let step = base_step + i + 1;
        match op {
            MapOp::Insert { k, v, global } => {
                let existed = model.top().contains_key(&(rk(*k)));
                let r = map.insert(
                    rk(*k),
                    *v,
                    if *global { Scope::Global } else { Scope::Local },
                );
                if r != existed {
                    return SegResult {
                        violation: Some(Violation {
                            class: "c20:map:insert-result".into(),
                            detail: format!("op {step} {op:?}: insert returned {r}, key existed = {existed}"),
                        }),
                        model,
                        carry: Carry::None,
                        stats,
                        log,
                    };
                }
                if *global && model.stack.len() >= 3 {
                    *stats.entry("reach.map_global_insert_at_depth_ge_2").or_insert(0) += 1;
                }
                model.insert(rk(*k), *v, *global);
            }
            MapOp::Extend(pairs) => {
                map.extend(pairs.iter().map(|(k, v)| (rk(*k), *v)));
                for (k, v) in pairs {
                    model.insert(rk(*k), *v, false);
                }
                *stats.entry("reach.map_extend").or_insert(0) += 1;
            }
            MapOp::Begin => {
                map.begin_group();
                model.begin();
            }
            MapOp::End => {
                let had = model.stack.len() > 1;
                if had {
                    let before = model.top().clone();
                    model.end();
                    if before != *model.top() {
                        *stats.entry("reach.map_rollback_changed_state").or_insert(0) += 1;
                    }
                } else {
                    *stats.entry("reach.map_end_with_no_group").or_insert(0) += 1;
                }
                let r = map.end_group();
                if r.is_ok() != had {
                    return SegResult {
                        violation: Some(Violation {
                            class: "c20:map:end-result".into(),
                            detail: format!("op {step}: end_group() = {r:?}, model had group = {had}"),
                        }),
                        model,
                        carry: Carry::None,
                        stats,
                        log,
                    };
                }
            }
            MapOp::RebuildIterAll { .. } => {
                let items: Items = map
                    .iter_all()
                    .map(|it| match it {
                        Item::BeginGroup => None,
                        Item::Value((k, v)) => Some((k, *v)),
                    })
                    .collect();
                if let Some(v) = check_iter_all(&items, &model, step) {
                    return SegResult {
                        violation: Some(v),
                        model,
                        carry: Carry::None,
                        stats,
                        log,
                    };
                }
                *stats.entry("faults.map_rebuild_iter_all").or_insert(0) += 1;
                if model.stack.len() >= 3 {
                    *stats.entry("reach.map_rebuild_with_ge_2_open_groups").or_insert(0) += 1;
                }
                carry_out = Carry::Items(items);
                break;
            }
            MapOp::RebuildSerde { .. } => {
                match serde_json::to_string(&map) {
                    Ok(s) => carry_out = Carry::Json(s),
                    Err(e) => {
                        return SegResult {
                            violation: Some(Violation {
                                class: "c20:map:serde".into(),
                                detail: format!("serialise failed: {e}"),
                            }),
                            model,
                            carry: Carry::None,
                            stats,
                            log,
                        }
                    }
                }
                *stats.entry("faults.map_rebuild_serde").or_insert(0) += 1;
                break;
            }
        }
        log.push_str(&format!("{step} {op:?} -> {:?}\n", model.top()));
        *stats
            .entry(match (model.stack.len() - 1).min(6) {
                0 => "state.map_depth_0",
                1 => "state.map_depth_1",
                2 => "state.map_depth_2",
                3 => "state.map_depth_3",
                4 => "state.map_depth_4",
                5 => "state.map_depth_5",
                _ => "state.map_depth_6",
            })
            .or_insert(0) += 1;
        if let Some(v) = check_map(&map, &model, nkeys, step, &format!("{op:?}")) {
            return SegResult {
                violation: Some(v),
                model,
                carry: Carry::None,
                stats,
                log,
            };
        }
        *stats.entry("comparisons").or_insert(0) += 1;
    }
    SegResult {
        violation: None,
        model,
        carry: carry_out,
        stats,
        log,
    }
}

fn eval_map(kind: MapKind, nkeys: u8, first_hash_seed: u64, ops: &[MapOp], ev: &mut Evaluation) {
    let mut model = MapModel::new();
    let mut carry = (0u8, Items::new(), String::new()); // 0 none, 1 items, 2 json
    let mut pos = 0usize;
    let mut hash_seed = first_hash_seed;
    let mut rebuilds = 0;
    while pos < ops.len() || pos == 0 {
        // segment = ops[pos ..= next rebuild]
        let mut end = pos;
        while end < ops.len() {
            let is_rebuild = matches!(
                ops[end],
                MapOp::RebuildIterAll { .. } | MapOp::RebuildSerde { .. }
            );
            end += 1;
            if is_rebuild {
                break;
            }
        }
        let seg: Vec<MapOp> = ops[pos..end].to_vec();
        let next_seed = match seg.last() {
            Some(MapOp::RebuildIterAll { hash_seed }) | Some(MapOp::RebuildSerde { hash_seed }) => {
                Some(*hash_seed)
            }
            _ => None,
        };
        let (c0, c1, c2) = carry.clone();
        let m = model.clone();
        let nk = nkeys as usize;
        let r = process::run_process_with_stack(hash_seed, 1 << 20, move || {
            let c = match c0 {
                0 => Carry::None,
                1 => Carry::Items(c1),
                _ => Carry::Json(c2),
            };
            let r = match kind {
                MapKind::Hash => {
                    run_map_segment::<std::collections::HashMap<usize, u32>>(c, m, seg, nk, pos)
                }
                MapKind::Vec => run_map_segment::<Vec<Option<u32>>>(c, m, seg, nk, pos),
            };
            let carry = match r.carry {
                Carry::None => (0u8, Items::new(), String::new()),
                Carry::Items(i) => (1, i, String::new()),
                Carry::Json(s) => (2, Items::new(), s),
            };
            (r.violation, r.model.stack, carry, r.stats, r.log)
        });
        match r {
            Err((loc, msg)) => {
                ev.violation = Some(Violation {
                    class: format!("c20:map:panic:{}", crate::c01::panic_site(&loc, &msg)),
                    detail: format!("panic at {loc}: {msg} (ops {pos}..{end})"),
                });
                return;
            }
            Ok((v, stack, c, stats, log)) => {
                for (k, n) in stats {
                    ev.add(k, n);
                }
                ev.log.push_str(&log);
                if v.is_some() {
                    ev.violation = v;
                    return;
                }
                model.stack = stack;
                carry = c;
            }
        }
        if next_seed.is_some() {
            rebuilds += 1;
        }
        hash_seed = next_seed.unwrap_or(hash_seed);
        pos = end;
        if ops.is_empty() {
            break;
        }
        if pos >= ops.len() && next_seed.is_none() {
            break;
        }
        if pos >= ops.len() && next_seed.is_some() {
            // A trailing rebuild: run one empty segment so that the rebuilt map is checked.
            let (c0, c1, c2) = carry.clone();
            let m = model.clone();
            let nk = nkeys as usize;
            let r = process::run_process_with_stack(hash_seed, 1 << 20, move || {
                let c = match c0 {
                    0 => Carry::None,
                    1 => Carry::Items(c1),
                    _ => Carry::Json(c2),
                };
                let r = match kind {
                    MapKind::Hash => run_map_segment::<std::collections::HashMap<usize, u32>>(
                        c,
                        m,
                        vec![],
                        nk,
                        pos,
                    ),
                    MapKind::Vec => run_map_segment::<Vec<Option<u32>>>(c, m, vec![], nk, pos),
                };
                r.violation
            });
            match r {
                Err((loc, msg)) => {
                    ev.violation = Some(Violation {
                        class: format!("c20:map:panic:{}", crate::c01::panic_site(&loc, &msg)),
                        detail: format!("panic at {loc}: {msg} (final rebuild)"),
                    });
                }
                Ok(v) => ev.violation = v,
            }
            break;
        }
    }
    ev.nontrivial = rebuilds > 0 || ev.counters.get("reach.map_rollback_changed_state").copied().unwrap_or(0) > 0;
    ev.bump(match kind {
        MapKind::Hash => "map_histories_hashmap",
        MapKind::Vec => "map_histories_vec",
    });
}

// ---------------------------------------------------------------- interner

#[derive(Default)]
pub struct ConstHasher;
impl Hasher for ConstHasher {
    fn finish(&self) -> u64 {
        12
    }
    fn write(&mut self, _: &[u8]) {}
}

#[derive(Default)]
pub struct TwoBitHasher(u64);
impl Hasher for TwoBitHasher {
    fn finish(&self) -> u64 {
        self.0 & 3
    }
    fn write(&mut self, b: &[u8]) {
        for x in b {
            self.0 = self.0.wrapping_add(*x as u64);
        }
    }
}

type Key = std::num::NonZeroU32;

fn run_interner_segment<S: BuildHasher + Default>(
    json: Option<String>,
    mut model: Vec<String>,
    mut issued: BTreeMap<String, u32>,
    strings: Vec<String>,
    ops: Vec<InternOp>,
    base: usize,
) -> (Option<Violation>, Vec<String>, BTreeMap<String, u32>, Option<String>, BTreeMap<&'static str, u64>, String) {
    let mut stats: BTreeMap<&'static str, u64> = BTreeMap::new();
    let mut log = String::new();
    let mut interner: Interner<Key, S> = match json {
        None => Default::default(),
        Some(s) => match serde_json::from_str(&s) {
            Ok(i) => i,
            Err(e) => {
                return (
                    Some(Violation {
                        class: "c20:interner:serde".into(),
                        detail: format!("deserialise failed: {e}"),
                    }),
                    model,
                    issued,
                    None,
                    stats,
                    log,
                )
            }
        },
    };
    let fail = |class: &str, detail: String| Some(Violation {
        class: class.to_string(),
        detail,
    });
    let resolve_all = |interner: &Interner<Key, S>,
                       issued: &BTreeMap<String, u32>,
                       step: usize|
     -> Option<Violation> {
        for (s, k) in issued {
            let key = Key::new(*k).unwrap();
            let got = interner.resolve(key);
            if got != Some(s.as_str()) {
                return Some(Violation {
                    class: "c20:interner:resolve".into(),
                    detail: format!("op {step}: resolve(key {k}) = {got:?}, issued for {s:?}"),
                });
            }
            let g = interner.get(s).map(|k| k.get());
            if g != Some(*k) {
                return Some(Violation {
                    class: "c20:interner:get".into(),
                    detail: format!("op {step}: get({s:?}) = {g:?}, key issued was {k}"),
                });
            }
        }
        None
    };
    if base > 0 {
        if let Some(v) = resolve_all(&interner, &issued, base) {
            return (Some(v), model, issued, None, stats, log);
        }
    }
    let mut out_json = None;
    for (i, op) in ops.iter().enumerate() {
        let step = base + i + 1;
        match op {
            InternOp::GetOrIntern(si) => {
                let s = &strings[*si as usize % strings.len()];
                let k = interner.get_or_intern(s).get();
                match issued.get(s) {
                    Some(prev) => {
                        if *prev != k {
                            return (
                                fail("c20:interner:unstable-key", format!("op {step}: get_or_intern({s:?}) = {k}, earlier {prev}")),
                                model, issued, None, stats, log,
                            );
                        }
                        *stats.entry("reach.interner_reintern_existing").or_insert(0) += 1;
                    }
                    None => {
                        if let Some((other, _)) = issued.iter().find(|(_, v)| **v == k) {
                            return (
                                fail("c20:interner:key-collision", format!("op {step}: get_or_intern({s:?}) = {k}, which was already issued for {other:?}")),
                                model, issued, None, stats, log,
                            );
                        }
                        issued.insert(s.clone(), k);
                        model.push(s.clone());
                    }
                }
                log.push_str(&format!("{step} intern {s:?} -> {k}\n"));
            }
            InternOp::Get(si) => {
                let s = &strings[*si as usize % strings.len()];
                let g = interner.get(s).map(|k| k.get());
                let want = issued.get(s).copied();
                if g != want {
                    return (
                        fail("c20:interner:get", format!("op {step}: get({s:?}) = {g:?}, model {want:?}")),
                        model, issued, None, stats, log,
                    );
                }
                log.push_str(&format!("{step} get {s:?} -> {g:?}\n"));
            }
            InternOp::ResolveAll => {
                if let Some(v) = resolve_all(&interner, &issued, step) {
                    return (Some(v), model, issued, None, stats, log);
                }
            }
            InternOp::Restart { .. } => {
                match serde_json::to_string(&interner) {
                    Ok(s) => out_json = Some(s),
                    Err(e) => {
                        return (
                            fail("c20:interner:serde", format!("serialise failed: {e}")),
                            model, issued, None, stats, log,
                        )
                    }
                }
                *stats.entry("faults.interner_restart").or_insert(0) += 1;
                break;
            }
        }
        *stats.entry("comparisons").or_insert(0) += 1;
    }
    if issued.len() >= 3 {
        *stats.entry("reach.interner_ge_3_strings").or_insert(0) += 1;
    }
    (None, model, issued, out_json, stats, log)
}

fn eval_interner(
    hasher: HasherKind,
    strings: &[String],
    first_hash_seed: u64,
    ops: &[InternOp],
    ev: &mut Evaluation,
) {
    let mut model: Vec<String> = vec![];
    let mut issued: BTreeMap<String, u32> = BTreeMap::new();
    let mut json: Option<String> = None;
    let mut pos = 0usize;
    let mut hash_seed = first_hash_seed;
    let mut restarts = 0;
    loop {
        let mut end = pos;
        while end < ops.len() {
            let r = matches!(ops[end], InternOp::Restart { .. });
            end += 1;
            if r {
                break;
            }
        }
        let seg: Vec<InternOp> = ops[pos..end].to_vec();
        let next_seed = match seg.last() {
            Some(InternOp::Restart { hash_seed }) => Some(*hash_seed),
            _ => None,
        };
        let (j, m, is, st) = (json.clone(), model.clone(), issued.clone(), strings.to_vec());
        let r = process::run_process_with_stack(hash_seed, 1 << 20, move || match hasher {
            HasherKind::Random => run_interner_segment::<std::collections::hash_map::RandomState>(
                j, m, is, st, seg, pos,
            ),
            HasherKind::Constant => {
                run_interner_segment::<BuildHasherDefault<ConstHasher>>(j, m, is, st, seg, pos)
            }
            HasherKind::TwoBit => {
                run_interner_segment::<BuildHasherDefault<TwoBitHasher>>(j, m, is, st, seg, pos)
            }
        });
        match r {
            Err((loc, msg)) => {
                ev.violation = Some(Violation {
                    class: format!("c20:interner:panic:{}", crate::c01::panic_site(&loc, &msg)),
                    detail: format!("panic at {loc}: {msg}"),
                });
                return;
            }
            Ok((v, m, is, j, stats, log)) => {
                for (k, n) in stats {
                    ev.add(k, n);
                }
                ev.log.push_str(&log);
                if v.is_some() {
                    ev.violation = v;
                    return;
                }
                model = m;
                issued = is;
                json = j;
            }
        }
        if next_seed.is_some() {
            restarts += 1;
        }
        hash_seed = next_seed.unwrap_or(hash_seed);
        pos = end;
        if pos >= ops.len() {
            if next_seed.is_some() {
                // check the restarted interner once more
                let (j, m, is, st) = (json.clone(), model.clone(), issued.clone(), strings.to_vec());
                let r = process::run_process_with_stack(hash_seed, 1 << 20, move || match hasher {
                    HasherKind::Random => run_interner_segment::<std::collections::hash_map::RandomState>(j, m, is, st, vec![InternOp::ResolveAll], pos).0,
                    HasherKind::Constant => run_interner_segment::<BuildHasherDefault<ConstHasher>>(j, m, is, st, vec![InternOp::ResolveAll], pos).0,
                    HasherKind::TwoBit => run_interner_segment::<BuildHasherDefault<TwoBitHasher>>(j, m, is, st, vec![InternOp::ResolveAll], pos).0,
                });
                match r {
                    Err((loc, msg)) => {
                        ev.violation = Some(Violation {
                            class: format!("c20:interner:panic:{}", crate::c01::panic_site(&loc, &msg)),
                            detail: format!("panic at {loc}: {msg}"),
                        })
                    }
                    Ok(v) => ev.violation = v,
                }
            }
            break;
        }
    }
    ev.bump(match hasher {
        HasherKind::Random => "interner_histories_random_state",
        HasherKind::Constant => "interner_histories_constant_hasher",
        HasherKind::TwoBit => "interner_histories_two_bit_hasher",
    });
    if hasher != HasherKind::Random && issued.len() >= 3 {
        ev.bump("reach.colliding_chain_length_ge_3");
    }
    ev.nontrivial = issued.len() >= 2 && (restarts > 0 || hasher != HasherKind::Random);
}

/// The key an operation's key index stands for: four dense keys, then two far beyond them (for
/// the vector-backed map: holes, growth and shrinking by hundreds of slots).
fn rk(k: u8) -> usize {
    if k < 6 {
        [0usize, 1, 2, 3, 70, 300][k as usize]
    } else {
        k as usize
    }
}

// ---------------------------------------------------------------- matcher

fn eval_matcher(
    pattern: &[u8],
    texts: &[Vec<u8>],
    restart_before: Option<(usize, u64)>,
    ev: &mut Evaluation,
) {
    if pattern.is_empty() {
        return;
    }
    let pattern = pattern.to_vec();
    let texts = texts.to_vec();
    let r = process::run_process_with_stack(7, 1 << 20, move || {
        // The pattern is a non-empty vector; build it through each of the type's constructors in
        // turn (which one is a function of the pattern) and compare its own observations with the
        // plain vector first.
        let how = pattern.iter().map(|b| *b as usize).sum::<usize>() + pattern.len();
        let nv: Nevec<u8> = match how % 4 {
            0 => Nevec::new_with_tail(pattern[0], pattern[1..].to_vec()),
            1 => {
                let mut n = Nevec::new(pattern[0]);
                for b in &pattern[1..] {
                    n.push(*b);
                }
                n
            }
            2 => {
                let mut n = Nevec::with_capacity(pattern[0], pattern.len());
                for b in &pattern[1..] {
                    n.push(*b);
                }
                n
            }
            _ => {
                // Default is "one default element"
                let mut n = Nevec::<u8>::default();
                *n.last_mut() = pattern[0];
                for b in &pattern[1..] {
                    n.push(*b);
                }
                n
            }
        };
        let seen: Vec<u8> = (&nv).into_iter().copied().collect();
        let by_get: Vec<u8> = (0..pattern.len()).filter_map(|i| nv.get(i).copied()).collect();
        // (Nevec::is_empty is documented as "returns whether the vector is non-empty, which it
        // always is" and returns true; it is not judged.)
        if nv.len() != pattern.len()
            || seen != pattern
            || by_get != pattern
            || nv.get(pattern.len()).is_some()
            || nv.last() != pattern.last().unwrap()
            || nv[0] != pattern[0]
        {
            return Err(Violation {
                class: "c20:nevec".into(),
                detail: format!(
                    "non-empty vector built by constructor {} from {:?}: len {} iter {:?} get {:?} last {}",
                    how % 4,
                    pattern,
                    nv.len(),
                    seen,
                    by_get,
                    nv.last()
                ),
            });
        }
        let mut m = Matcher::new(nv);
        let mut comparisons = 0u64;
        let mut overlaps = 0u64;
        let mut matches = 0u64;
        let mut log = String::new();
        for (ti, text) in texts.iter().enumerate() {
            if let Some((k, _)) = restart_before {
                if k == ti {
                    let s = serde_json::to_string(&m).unwrap();
                    m = serde_json::from_str(&s).unwrap();
                }
            }
            let mut search = m.start();
            let mut last_match_end: Option<usize> = None;
            for i in 0..text.len() {
                let got = search.next(&text[i]);
                let want = i + 1 >= pattern.len() && text[i + 1 - pattern.len()..=i] == pattern[..];
                comparisons += 1;
                if got != want {
                    return Err(Violation {
                        class: "c20:matcher".into(),
                        detail: format!(
                            "pattern {:?}, text {:?}: at position {i} next() = {got}, expected {want}",
                            String::from_utf8_lossy(&pattern),
                            String::from_utf8_lossy(text)
                        ),
                    });
                }
                if want {
                    matches += 1;
                    if let Some(e) = last_match_end {
                        if i - e < pattern.len() {
                            overlaps += 1;
                        }
                    }
                    last_match_end = Some(i);
                }
            }
            log.push_str(&format!("text {ti}: {matches} matches\n"));
        }
        Ok((comparisons, overlaps, matches, log))
    });
    match r {
        Err((loc, msg)) => {
            ev.violation = Some(Violation {
                class: format!("c20:matcher:panic:{}", crate::c01::panic_site(&loc, &msg)),
                detail: format!("panic at {loc}: {msg}"),
            })
        }
        Ok(Err(v)) => ev.violation = Some(v),
        Ok(Ok((c, o, m, log))) => {
            ev.add("comparisons", c);
            ev.add("reach.matcher_overlapping_matches", o);
            ev.add("matcher_matches", m);
            ev.log.push_str(&log);
            ev.nontrivial = m > 0;
        }
    }
    ev.bump("matcher_cases");
}

impl Property for C20 {
    type Case = Case;
    fn id(&self) -> &'static str {
        "C20"
    }
    fn runs(&self, tier: Tier) -> u64 {
        match tier {
            Tier::Quick => 100_000,
            Tier::Thorough => 4_000_000,
        }
    }
    fn generate(&self, run_seed: u64, run_index: u64) -> Case {
        let mut rng = Rng::split(run_seed, 1);
        match run_index % 5 {
            0 | 1 | 2 if rng.chance(1, 10) => {
                // Wide groups: 3 .. 70 distinct keys inserted locally in ONE group (around the sizes
                // at which an inline table, a hash map or a vector changes shape), a few of them
                // inserted again (locally or globally), the group closed; some nesting, some
                // rebuilds, with the whole map compared after every operation.
                let n = *rng.pick(&[3usize, 7, 8, 9, 15, 16, 17, 31, 32, 33, 64, 70]);
                let nkeys = n as u8;
                let mut next_v = 0u32;
                let mut ops = vec![];
                // some keys exist before the group
                for k in 0..n {
                    if rng.chance(1, 3) {
                        next_v += 1;
                        ops.push(MapOp::Insert { k: k as u8, v: next_v, global: false });
                    }
                }
                let outer = rng.chance(1, 2);
                if outer {
                    ops.push(MapOp::Begin);
                    next_v += 1;
                    ops.push(MapOp::Insert { k: rng.below(n) as u8, v: next_v, global: false });
                }
                ops.push(MapOp::Begin);
                for k in 0..n {
                    next_v += 1;
                    ops.push(MapOp::Insert { k: k as u8, v: next_v, global: false });
                }
                for _ in 0..1 + rng.below(4) {
                    next_v += 1;
                    ops.push(MapOp::Insert { k: rng.below(n) as u8, v: next_v, global: rng.chance(1, 4) });
                    if rng.chance(1, 6) {
                        ops.push(MapOp::RebuildIterAll { hash_seed: rng.next_u64() });
                    }
                }
                if rng.chance(1, 3) {
                    ops.push(MapOp::Begin);
                    next_v += 1;
                    ops.push(MapOp::Insert { k: rng.below(n) as u8, v: next_v, global: rng.chance(1, 3) });
                    ops.push(MapOp::End);
                }
                ops.push(MapOp::End);
                if outer {
                    ops.push(MapOp::End);
                }
                Case::Map {
                    kind: if rng.chance(1, 2) { MapKind::Hash } else { MapKind::Vec },
                    nkeys,
                    first_hash_seed: rng.next_u64(),
                    ops,
                }
            }
            0 | 1 | 2 => {
                let nkeys = 2 + rng.below(5) as u8;
                let len = 2 + rng.below(59);
                let p_rebuild = [0u32, 3, 8, 15][rng.below(4)];
                let p_global = [10u32, 30, 50][rng.below(3)];
                let depth_cap = 1 + rng.below(6);
                let mut depth = 0usize;
                let mut next_v = 0u32;
                let mut ops = vec![];
                for _ in 0..len {
                    let x = rng.below(100) as u32;
                    if x < p_rebuild {
                        if rng.chance(1, 2) {
                            ops.push(MapOp::RebuildIterAll {
                                hash_seed: rng.next_u64(),
                            });
                        } else {
                            ops.push(MapOp::RebuildSerde {
                                hash_seed: rng.next_u64(),
                            });
                        }
                    } else if x < p_rebuild + 15 {
                        if depth < depth_cap {
                            ops.push(MapOp::Begin);
                            depth += 1;
                        }
                    } else if x < p_rebuild + 30 {
                        if depth > 0 || rng.chance(1, 5) {
                            ops.push(MapOp::End);
                            depth = depth.saturating_sub(1);
                        }
                    } else if x < p_rebuild + 36 {
                        let n = 1 + rng.below(3);
                        let mut pairs = vec![];
                        for _ in 0..n {
                            next_v += 1;
                            pairs.push((rng.below(nkeys as usize) as u8, next_v));
                        }
                        ops.push(MapOp::Extend(pairs));
                    } else {
                        next_v += 1;
                        ops.push(MapOp::Insert {
                            k: rng.below(nkeys as usize) as u8,
                            v: next_v,
                            global: rng.chance(p_global, 100),
                        });
                    }
                }
                Case::Map {
                    kind: if rng.chance(1, 2) {
                        MapKind::Hash
                    } else {
                        MapKind::Vec
                    },
                    nkeys,
                    first_hash_seed: rng.next_u64(),
                    ops,
                }
            }
            3 => {
                let pool = [
                    "", "a", "b", "ab", "ba", "aa", "\u{e9}", "par", "relax", "a b", "\u{df}", "count",
                    "abc", "cba", "\u{10FFFF}", "aaa",
                    // strings that a line-, field- or quote-based encoding would mangle
                    "\n", "\r", "a\n", "\nb", "\r\n", "x\r", "\t", " ", "\0", "\"", "\\", ",", "a,b", "[", "}",
                    "\u{2028}", "\u{feff}", "\u{1d538}",
                ];
                // One history in sixteen is big: 250 .. 310 strings (key tables and offsets beyond
                // one byte) and a few very long strings.
                let big = rng.chance(1, 16);
                let n = if big { 250 + rng.below(61) } else { 2 + rng.below(10) };
                let mut strings: Vec<String> = vec![];
                for k in 0..n {
                    let s = if big && k % 4 != 0 {
                        match k % 50 {
                            7 => "l".repeat(255),
                            17 => "l".repeat(256),
                            27 => "m".repeat(70_000),
                            _ => format!("n{k}"),
                        }
                    } else {
                        pool[rng.below(pool.len())].to_string()
                    };
                    if !strings.contains(&s) {
                        strings.push(s);
                    }
                }
                if big {
                    let mut ops = vec![];
                    for i in 0..strings.len() {
                        ops.push(InternOp::GetOrIntern(i as u16));
                        if rng.chance(1, 60) {
                            ops.push(InternOp::Restart {
                                hash_seed: rng.next_u64(),
                            });
                        }
                    }
                    ops.push(InternOp::Restart {
                        hash_seed: rng.next_u64(),
                    });
                    for _ in 0..40 {
                        let i = rng.below(strings.len()) as u16;
                        ops.push(if rng.chance(1, 2) { InternOp::Get(i) } else { InternOp::GetOrIntern(i) });
                    }
                    ops.push(InternOp::ResolveAll);
                    return Case::Interner {
                        // a constant hasher makes 300 strings one chain of 300: keep it to the
                        // other two here
                        hasher: [HasherKind::Random, HasherKind::TwoBit][rng.below(2)],
                        strings,
                        first_hash_seed: rng.next_u64(),
                        ops,
                    };
                }
                let len = 2 + rng.below(40);
                let p_restart = [0u32, 5, 12][rng.below(3)];
                let mut ops = vec![];
                for _ in 0..len {
                    let x = rng.below(100) as u32;
                    if x < p_restart {
                        ops.push(InternOp::Restart {
                            hash_seed: rng.next_u64(),
                        });
                    } else if x < p_restart + 10 {
                        ops.push(InternOp::ResolveAll);
                    } else if x < p_restart + 35 {
                        ops.push(InternOp::Get(rng.below(strings.len()) as u16));
                    } else {
                        ops.push(InternOp::GetOrIntern(rng.below(strings.len()) as u16));
                    }
                }
                ops.push(InternOp::ResolveAll);
                Case::Interner {
                    hasher: [HasherKind::Random, HasherKind::Constant, HasherKind::TwoBit]
                        [rng.below(3)],
                    strings,
                    first_hash_seed: rng.next_u64(),
                    ops,
                }
            }
            _ if rng.chance(1, 25) => {
                // Long periodic patterns: borders of 250 .. 520 elements (table entries beyond one
                // byte), texts that run the period, break it once and run it again.
                let ulen = 1 + rng.below(3);
                let unit: Vec<u8> = (0..ulen).map(|_| b'a' + rng.below(2) as u8).collect();
                let plen = [250usize, 255, 256, 257, 258, 300, 511, 512, 520][rng.below(9)];
                let pattern: Vec<u8> = (0..plen).map(|i| unit[i % ulen]).collect();
                let mut t: Vec<u8> = (0..plen + rng.below(40)).map(|i| unit[i % ulen]).collect();
                t.push(b'a' + rng.below(3) as u8);
                let more = plen / 2 + rng.below(plen);
                t.extend((0..more).map(|i| unit[i % ulen]));
                Case::Matcher {
                    pattern,
                    texts: vec![t],
                    restart_before: if rng.chance(1, 3) { Some((0, rng.next_u64())) } else { None },
                }
            }
            _ => {
                let alpha = 2 + rng.below(2);
                let plen = 1 + rng.below(5);
                let pattern: Vec<u8> = (0..plen).map(|_| b'a' + rng.below(alpha) as u8).collect();
                let nt = 1 + rng.below(3);
                let mut texts = vec![];
                for _ in 0..nt {
                    let tlen = rng.below(15);
                    // Bias towards texts that contain the pattern (with overlaps).
                    let mut t: Vec<u8> = vec![];
                    while t.len() < tlen {
                        if rng.chance(1, 3) {
                            let cut = rng.below(pattern.len()) + 1;
                            t.extend_from_slice(&pattern[..cut]);
                        } else {
                            t.push(b'a' + rng.below(alpha) as u8);
                        }
                    }
                    texts.push(t);
                }
                Case::Matcher {
                    pattern,
                    texts,
                    restart_before: if rng.chance(1, 3) {
                        Some((rng.below(nt), rng.next_u64()))
                    } else {
                        None
                    },
                }
            }
        }
    }

    fn evaluate(&self, case: &Case) -> Evaluation {
        let mut ev = Evaluation::default();
        match case {
            Case::Map {
                kind,
                nkeys,
                first_hash_seed,
                ops,
            } => eval_map(*kind, *nkeys, *first_hash_seed, ops, &mut ev),
            Case::Interner {
                hasher,
                strings,
                first_hash_seed,
                ops,
            } => eval_interner(*hasher, strings, *first_hash_seed, ops, &mut ev),
            Case::Matcher {
                pattern,
                texts,
                restart_before,
            } => eval_matcher(pattern, texts, *restart_before, &mut ev),
        }
        ev.sample = serde_json::to_value(case).unwrap_or(serde_json::Value::Null);
        ev
    }

    fn shrink(&self, case: &Case) -> Vec<Case> {
        let mut out = vec![];
        match case {
            Case::Map {
                kind,
                nkeys,
                first_hash_seed,
                ops,
            } => {
                let mk = |ops: Vec<MapOp>| Case::Map {
                    kind: *kind,
                    nkeys: *nkeys,
                    first_hash_seed: *first_hash_seed,
                    ops,
                };
                let n = ops.len();
                let mut chunk = n / 2;
                while chunk >= 1 {
                    let mut s = 0;
                    while s < n {
                        let mut o = ops.clone();
                        o.drain(s..(s + chunk).min(n));
                        out.push(mk(o));
                        s += chunk;
                    }
                    if chunk == 1 {
                        break;
                    }
                    chunk /= 2;
                }
                for (i, op) in ops.iter().enumerate() {
                    match op {
                        MapOp::RebuildIterAll { hash_seed } | MapOp::RebuildSerde { hash_seed }
                            if *hash_seed != 1 =>
                        {
                            let mut o = ops.clone();
                            o[i] = match op {
                                MapOp::RebuildIterAll { .. } => MapOp::RebuildIterAll { hash_seed: 1 },
                                _ => MapOp::RebuildSerde { hash_seed: 1 },
                            };
                            out.push(mk(o));
                        }
                        MapOp::Insert { k, v, global: true } => {
                            let mut o = ops.clone();
                            o[i] = MapOp::Insert {
                                k: *k,
                                v: *v,
                                global: false,
                            };
                            out.push(mk(o));
                        }
                        _ => {}
                    }
                }
            }
            Case::Interner {
                hasher,
                strings,
                first_hash_seed,
                ops,
            } => {
                for i in 0..ops.len() {
                    let mut o = ops.clone();
                    o.remove(i);
                    out.push(Case::Interner {
                        hasher: *hasher,
                        strings: strings.clone(),
                        first_hash_seed: *first_hash_seed,
                        ops: o,
                    });
                }
            }
            Case::Matcher {
                pattern,
                texts,
                restart_before,
            } => {
                for i in 0..texts.len() {
                    if texts.len() > 1 {
                        let mut t = texts.clone();
                        t.remove(i);
                        out.push(Case::Matcher {
                            pattern: pattern.clone(),
                            texts: t,
                            restart_before: None,
                        });
                    }
                    for j in 0..texts[i].len() {
                        let mut t = texts.clone();
                        t[i].remove(j);
                        out.push(Case::Matcher {
                            pattern: pattern.clone(),
                            texts: t,
                            restart_before: *restart_before,
                        });
                    }
                }
                if restart_before.is_some() {
                    out.push(Case::Matcher {
                        pattern: pattern.clone(),
                        texts: texts.clone(),
                        restart_before: None,
                    });
                }
            }
        }
        out
    }

    fn rule(&self) -> String {
        "Three case kinds, 3:1:1. (a) Scoped map (GroupingHashMap or GroupingVec, 2-6 keys, unique values, 2-60 ops, <= 6 open groups): insert local/global, begin_group, end_group (also with no group open), and Rebuild = iter_all() -> FromIterator or a serde JSON round trip executed in a NEW simulated process (new hash seeds for every internal HashMap); after every op get() of all keys, len(), iter() and the boolean results are compared with a stack-of-snapshots model, and iter_all() must replay to the model's whole stack. (b) Interner under RandomState with simulator-owned seeds, a constant hasher (all strings collide) and a 2-bit hasher: get_or_intern / get / resolve histories with Restart = serialise -> deserialise in a new process; keys equal iff strings equal, stable across restarts, every key resolves. (c) Matcher: pattern (1-5) and texts (0-14) over 2-3 letters, text delivered one element at a time, several searches per matcher, optional JSON round trip; oracle 'the delivered prefix ends with the pattern' per element. Non-trivial = (map) at least one rebuild or one rollback that changed the model; (interner) >= 2 strings and (a restart or a colliding hasher); (matcher) at least one match. Distinct = distinct FNV hash of the serialised case. Sub-claim (d), tags under threads, is explored by the shuttle-tags engine and reported under coverage.tags.".into()
    }
    fn assumptions(&self) -> Vec<String> {
        vec![
            "Sampling: the property text mentions exhaustive spaces (10^7 histories, all patterns up to length 5); enumerating them would be model checking and is not done here.".into(),
            "The matcher sub-claim has no fault or schedule dimension; it rides along as reference-model workload so that a regression still fails C20.".into(),
            "shuttle's scheduler explores interleavings at its own synchronisation points (Mutex, Once); the tag code uses nothing else.".into(),
        ]
    }
    fn extra_evidence(&self, _totals: &BTreeMap<String, u64>) -> serde_json::Value {
        match tags_side_file() {
            Some(v) => serde_json::json!({ "tags": v }),
            None => serde_json::json!({ "tags": "the shuttle-tags engine was not run in this invocation" }),
        }
    }
    fn external_violations(&self) -> u64 {
        match tags_side_file() {
            Some(v) if !v["violation"].is_null() => 1,
            _ => 0,
        }
    }
    fn components(&self) -> serde_json::Value {
        serde_json::json!({
            "real_code": ["texcraft-stdext groupingmap (GroupingContainer, IterAll, FromIterator, serde derive)", "texcraft-stdext interner (incl. Deserialize rebuild)", "texcraft-stdext substringsearch + nevec", "texlang command::Tag / StaticTag (unmodified source, compiled with --cfg texcraft_verif so that std::sync names resolve to shuttle's)"],
            "stubs": ["hash universe per simulated process (interposed getrandom)", "constant and 2-bit hashers", "shuttle::sync::{Mutex, Once} behind the verif_std shim; OnceLock shim built on shuttle's Once"],
        })
    }
}
