//! The only source of randomness in the simulator.
//!
//! Everything is derived from `VERIF_SEED` through SplitMix64; each run gets
//! `mix(VERIF_SEED, run_index)` and splits that into independent xoshiro256**
//! streams by purpose (configuration, workload, faults, hash seeds, clock).

#[derive(Clone, Debug)]
pub struct Rng {
    s: [u64; 4],
}

pub fn splitmix(x: &mut u64) -> u64 {
    *x = x.wrapping_add(0x9E37_79B9_7F4A_7C15);
    let mut z = *x;
    z = (z ^ (z >> 30)).wrapping_mul(0xBF58_476D_1CE4_E5B9);
    z = (z ^ (z >> 27)).wrapping_mul(0x94D0_49BB_1331_11EB);
    z ^ (z >> 31)
}

/// Mix two integers into one seed (used for `mix(VERIF_SEED, run_index)` and stream splitting).
pub fn mix(a: u64, b: u64) -> u64 {
    let mut x = a ^ b.wrapping_mul(0xD6E8_FEB8_6659_FD93).rotate_left(29);
    let y = splitmix(&mut x);
    let mut z = y ^ b;
    splitmix(&mut z)
}

impl Rng {
    pub fn new(seed: u64) -> Rng {
        let mut x = seed;
        let s = [
            splitmix(&mut x),
            splitmix(&mut x),
            splitmix(&mut x),
            splitmix(&mut x),
        ];
        Rng { s }
    }

    /// Independent stream for a named purpose.
    pub fn split(seed: u64, purpose: u64) -> Rng {
        Rng::new(mix(seed, purpose))
    }

    pub fn next_u64(&mut self) -> u64 {
        let result = self.s[1].wrapping_mul(5).rotate_left(7).wrapping_mul(9);
        let t = self.s[1] << 17;
        self.s[2] ^= self.s[0];
        self.s[3] ^= self.s[1];
        self.s[1] ^= self.s[2];
        self.s[0] ^= self.s[3];
        self.s[2] ^= t;
        self.s[3] = self.s[3].rotate_left(45);
        result
    }

    /// Uniform in `0..n` (n > 0).
    pub fn below(&mut self, n: usize) -> usize {
        debug_assert!(n > 0);
        (self.next_u64() % (n as u64)) as usize
    }

    /// Uniform in `lo..=hi`.
    pub fn range(&mut self, lo: i64, hi: i64) -> i64 {
        debug_assert!(lo <= hi);
        let span = (hi - lo) as u64 + 1;
        lo + (self.next_u64() % span) as i64
    }

    /// True with probability `num/den`.
    pub fn chance(&mut self, num: u32, den: u32) -> bool {
        (self.next_u64() % den as u64) < num as u64
    }

    pub fn pick<'a, T>(&mut self, xs: &'a [T]) -> &'a T {
        &xs[self.below(xs.len())]
    }

    /// Index drawn according to integer weights (at least one weight must be non-zero).
    pub fn weighted(&mut self, weights: &[u32]) -> usize {
        let total: u64 = weights.iter().map(|w| *w as u64).sum();
        debug_assert!(total > 0);
        let mut x = self.next_u64() % total;
        for (i, w) in weights.iter().enumerate() {
            if x < *w as u64 {
                return i;
            }
            x -= *w as u64;
        }
        weights.len() - 1
    }
}

/// FNV-1a, for content hashes in evidence (distinctness counting); not security relevant.
pub fn fnv(bytes: &[u8]) -> u64 {
    let mut h: u64 = 0xcbf2_9ce4_8422_2325;
    for b in bytes {
        h ^= *b as u64;
        h = h.wrapping_mul(0x0000_0100_0000_01B3);
    }
    h
}
