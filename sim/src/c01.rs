//! C01 — group scoping, judged by the stack-of-snapshots model, fault-free (configuration A) and
//! with crash/restart at line boundaries (configuration B).

use std::collections::BTreeMap;

use serde::{Deserialize, Serialize};

use crate::check::*;
use crate::driver::*;
use crate::gen;
use crate::job::*;
use crate::model::{Model, PREAMBLE};
use crate::ops::*;
use crate::rng::Rng;

#[derive(Clone, Debug, Serialize, Deserialize)]
pub struct Case {
    pub program: Program,
    pub schedule: Schedule,
    pub clock: Clock,
    /// Run on the repository's own `StdLibState` (its glue - hook delegations, component wiring -
    /// instead of the simulator's state type) rather than on `SimState`.
    #[serde(default)]
    pub real_state: bool,
}

pub struct C01;

pub fn build_job(program: &Program, clock: &Clock) -> (Job, Vec<crate::model::Rendered>) {
    let rendered = Model::render(program, clock.year, clock.day);
    let mut lines = vec![PREAMBLE.to_string()];
    lines.extend(rendered.iter().map(|r| r.text.clone()));
    (
        Job {
            lines,
            env: EnvSpec::default(),
            clock: clock.clone(),
            real_state: false,
        },
        rendered,
    )
}

/// Compare one executed line with the model's expectation.
pub fn judge_line(
    line_idx: usize,
    text: &str,
    obs: &LineObs,
    r: &crate::model::Rendered,
) -> Option<Violation> {
    let where_ = format!("line {line_idx} `{text}`");
    match &obs.result {
        LineResult::Panic { location, message } => {
            return Some(Violation {
                class: format!("c01:panic:{}", panic_site(location, message)),
                detail: format!("{where_}: panic at {location}: {message}"),
            })
        }
        LineResult::Budget => return None,
        LineResult::Ok => {
            if let Some(t) = r.expect_err {
                return Some(Violation {
                    class: "c01:missing-error".into(),
                    detail: format!("{where_}: expected fatal error `{t}`, line succeeded with out={:?}", obs.out),
                });
            }
        }
        LineResult::Err(e) => match r.expect_err {
            None => {
                return Some(Violation {
                    class: "c01:unexpected-error".into(),
                    detail: format!(
                        "{where_}: expected out={:?}, got error `{}` after out={:?}",
                        r.expect_out, e.title, obs.out
                    ),
                })
            }
            Some(_) => {
                // Any structured error will do: the statement is about values, not about the
                // wording (or identity) of error messages, which a refactoring may change.
            }
        },
    }
    if obs.out != r.expect_out {
        return Some(Violation {
            class: "c01:value".into(),
            detail: format!(
                "{where_}: model expects {:?}, VM produced {:?}",
                r.expect_out, obs.out
            ),
        });
    }
    if obs.font != r.expect_font {
        return Some(Violation {
            class: "c01:font".into(),
            detail: format!(
                "{where_}: model expects current font {}, VM has {}",
                r.expect_font, obs.font
            ),
        });
    }
    None
}

/// Panic site = source file (without line number) + message prefix: stable under unrelated edits.
pub fn panic_site(location: &str, message: &str) -> String {
    let file = location.rsplit_once(':').map(|x| x.0).unwrap_or(location);
    let file = file.rsplit("crates/").next().unwrap_or(file);
    // Digits are normalised (indices and sizes vary with the input), then cut to a prefix.
    let mut msg = String::new();
    let mut last_digit = false;
    for c in message.chars() {
        if c.is_ascii_digit() {
            if !last_digit {
                msg.push('N');
            }
            last_digit = true;
        } else {
            last_digit = false;
            msg.push(if c.is_ascii_alphabetic() { c } else { '_' });
        }
        if msg.len() >= 40 {
            break;
        }
    }
    format!("{file}:{msg}")
}

impl Property for C01 {
    type Case = Case;
    fn id(&self) -> &'static str {
        "C01"
    }
    fn runs(&self, tier: Tier) -> u64 {
        match tier {
            Tier::Quick => 60_000,
            Tier::Thorough => 1_500_000,
        }
    }
    fn generate(&self, run_seed: u64, run_index: u64) -> Case {
        let mut cfg_rng = Rng::split(run_seed, 1);
        let mut work_rng = Rng::split(run_seed, 2);
        let mut fault_rng = Rng::split(run_seed, 3);
        let mut hash_rng = Rng::split(run_seed, 4);
        let clock = Clock::default();
        let mut cfg = gen::scope_cfg(&mut cfg_rng);
        // Every eighth run executes on the repository's own state type (no \tracingmacros there:
        // its hook prints to the real stdout).
        let real_state = run_index % 8 == 5;
        cfg.no_tracingmacros = real_state;
        let program = gen::gen_scope_program(&cfg, &mut work_rng, clock.year, clock.day);
        // Configuration A (fault-free) for 3 of 4 runs; configuration B (crash/restart) otherwise.
        let schedule = if run_index % 4 == 3 && std::env::var("VERIF_NO_FAULTS").is_err() {
            let fc = gen::fault_cfg(&mut cfg_rng);
            gen::gen_schedule(
                &fc,
                &mut fault_rng,
                program.lines.len() + 1,
                hash_rng.next_u64(),
            )
        } else {
            Schedule::reference(hash_rng.next_u64())
        };
        Case {
            program,
            schedule,
            clock,
            real_state,
        }
    }

    fn evaluate(&self, case: &Case) -> Evaluation {
        let mut ev = Evaluation::default();
        let (mut job, rendered) = build_job(&case.program, &case.clock);
        job.real_state = case.real_state;
        ev.bump(if case.real_state {
            "runs_on_real_StdLibState"
        } else {
            "runs_on_SimState"
        });
        let trace = run_job(&job, &case.schedule, true);
        let faulty = case.schedule.fault_count() > 0;
        ev.bump(if faulty { "config_B_runs" } else { "config_A_runs" });
        let mut log = String::new();
        for l in &job.lines {
            log.push_str(l);
            log.push('\n');
        }
        for e in &trace.events {
            log.push_str(e);
            log.push('\n');
        }
        let mut comparisons = 0u64;
        let mut rollbacks = 0u64;
        for r in &rendered {
            for k in &r.reach {
                ev.bump(&format!("reach.{k}"));
                if *k == "rollback_changed_state" {
                    rollbacks += 1;
                }
            }
            // State feature vector after each line: nesting depth x current font x whether the
            // line rolled something back / assigned globally in a group.
            ev.states.insert(format!(
                "depth={} font={} rollback={} global_in_group={} err={}",
                r.depth_after,
                r.expect_font,
                r.reach.contains(&"rollback_changed_state"),
                r.reach.contains(&"global_assign_in_group"),
                r.expect_err.is_some()
            ));
        }
        if !trace.failures.is_empty() || trace.aborted.is_some() {
            // The checkpoint machinery failed: that is C08's subject; C01 does not judge the run.
            ev.bump("not_judged_machinery_failure");
        }
        for ex in &trace.execs {
            log.push_str(&format!(
                "p{} g{} L{} out={:?} {} font={}\n",
                ex.process,
                ex.generation,
                ex.line,
                ex.obs.out,
                ex.obs.result.short(),
                ex.obs.font
            ));
            ev.bump("lines_executed");
            if matches!(ex.obs.result, LineResult::Budget) {
                ev.bump("budget_exceeded");
            }
            if ex.line == 0 {
                continue;
            }
            let r = &rendered[ex.line - 1];
            if !r.judged {
                continue;
            }
            comparisons += 1;
            if ex.generation > 0 {
                ev.bump("comparisons_after_restore");
                if r.depth_after > 0 {
                    ev.bump("reach.judged_inside_group_after_restore");
                }
            }
            if ev.violation.is_none() {
                if let Some(v) = judge_line(ex.line, &job.lines[ex.line], &ex.obs, r) {
                    ev.violation = Some(v);
                }
            }
        }
        ev.add("comparisons", comparisons);
        add_fault_counters(&mut ev, &trace.counts);
        if trace.harness_error.is_some() {
            ev.harness_error = trace.harness_error.clone();
        }
        ev.nontrivial = comparisons > 0 && (rollbacks > 0 || trace.counts.restores + trace.counts.roundtrips > 0);
        ev.log = log;
        ev.sample = serde_json::json!({
            "program_as_tex": job.lines,
            "fault_schedule": format!("{:?}", case.schedule.steps),
            "first_hash_seed": case.schedule.first_hash_seed,
            "events": trace.events,
            "per_line_out": trace.execs.iter().map(|e| format!("p{} L{} {:?} {}", e.process, e.line, e.obs.out, e.obs.result.short())).collect::<Vec<_>>(),
        });
        ev
    }

    fn shrink(&self, case: &Case) -> Vec<Case> {
        shrink_case(case)
    }

    fn rule(&self) -> String {
        "A case is (op list, fault schedule). Ops are drawn swarm-style (per run: enabled op families and weights, 2-6 names, 0-2 active characters, 2-8 register indices incl. 0/255/256/32767, nesting cap 0-8, 2-40 lines of 1-4 ops) and printed as TeX through the reference model; every 4th run adds a crash/checkpoint/restore schedule (configuration B). Every line's token output, fatal-error title and current font are compared with the stack-of-snapshots model. Non-trivial = at least one model comparison was made AND (at least one group end changed the model state, i.e. a rollback really happened, OR at least one restore happened). Distinct = distinct FNV hash of the serialised (op list, schedule).".into()
    }
    fn assumptions(&self) -> Vec<String> {
        vec![
            "The reference model (DESIGN Appendix B) is TeX's scoping as in tex.web 1214/1218; no TeX binary exists in the sandbox to cross-check it.".into(),
            "Constructs whose TeX semantics texcraft does not claim (\\global\\chardef, \\let to an undefined name, \\edef, \\aftergroup, \\begingroup) are not generated.".into(),
            "Sampling, not enumeration: a clean batch is evidence, not proof.".into(),
        ]
    }
    fn components(&self) -> serde_json::Value {
        components_json()
    }
}

pub fn components_json() -> serde_json::Value {
    serde_json::json!({
        "real_code": ["texlang (VM, lexer, parsers, command map, save stack, serde; default features, i.e. as shipped)", "texlang_stdlib::StdLibState itself (the repository's own state type with its hook delegations) in every 6th C08 run, every 8th C01 run and, for C09 jobs that touch neither files nor the terminal, in a second execution of about 3 % of the runs (stdproc.rs)", "texlang-stdlib (all primitives via built_in_commands::<SimState>() except \\sleep, which calls the real thread::sleep)", "texlang-common", "texcraft-stdext", "common", "serde_json / rmp-serde / bincode"],
        "stubs": ["SimFs (FileSystem)", "SimTerminal (TerminalIn)", "SimWriter (terminal_out / log_file)", "SimState glue in all other runs (same components and hook delegations as StdLibState, incl. the repository's tracingmacros hook, whose println! output goes to /dev/null; plus the step budgets)", "hash universe per simulated process (interposed getrandom)", "clock: the job's boot clock, written into the time component right after VM creation (texlang-stdlib is built with its default features, so `Default` reads the real clock once and is overwritten before the first line)"],
    })
}

pub fn add_fault_counters(ev: &mut Evaluation, c: &FaultCounts) {
    ev.add("faults.crash", c.crashes);
    ev.add("faults.restore_in_new_process", c.restores);
    ev.add("faults.cold_boot_after_crash", c.cold_boots_after_crash);
    ev.add("faults.checkpoint_durable", c.checkpoints_durable);
    ev.add("faults.checkpoint_write_lost", c.checkpoints_lost);
    ev.add("faults.roundtrip_in_process", c.roundtrips);
    ev.add("faults.format_json", c.by_format[0]);
    ev.add("faults.format_msgpack", c.by_format[1]);
    ev.add("faults.format_bincode", c.by_format[2]);
    ev.add("lines_reexecuted_after_restart", c.lines_reexecuted);
    ev.add("faults.restart_in_separate_os_process_with_tag_skew", c.os_process_restarts);
}

/// Shrink candidates shared by C01 and C08: drop lines, drop ops, drop or simplify schedule steps.
pub fn shrink_case(case: &Case) -> Vec<Case> {
    let mut out = vec![];
    let n = case.program.lines.len();
    // Schedules first: drop everything, then halves, then single steps.
    if !case.schedule.steps.is_empty() {
        out.push(Case {
            schedule: Schedule {
                first_hash_seed: case.schedule.first_hash_seed,
                steps: vec![],
            },
            ..case.clone()
        });
    }
    // Drop chunks of lines (adjusting Run steps is unnecessary: Run(n) is "up to n").
    let mut chunk = n / 2;
    while chunk >= 1 {
        let mut start = 0;
        while start < n {
            let end = (start + chunk).min(n);
            let mut c = case.clone();
            c.program.lines.drain(start..end);
            if !c.program.lines.is_empty() {
                out.push(c);
            }
            start += chunk;
        }
        if chunk == 1 {
            break;
        }
        chunk /= 2;
    }
    // Drop single ops.
    for (li, l) in case.program.lines.iter().enumerate() {
        if l.len() > 1 {
            for oi in 0..l.len() {
                let mut c = case.clone();
                c.program.lines[li].remove(oi);
                out.push(c);
            }
        }
    }
    // Drop single schedule steps.
    for si in 0..case.schedule.steps.len() {
        let mut c = case.clone();
        c.schedule.steps.remove(si);
        out.push(c);
    }
    // Simplify steps: prefer bincode, un-lose checkpoints.
    for (si, s) in case.schedule.steps.iter().enumerate() {
        match s {
            Step::Checkpoint { format, lost } => {
                if *format != Format::Bincode {
                    let mut c = case.clone();
                    c.schedule.steps[si] = Step::Checkpoint {
                        format: Format::Bincode,
                        lost: *lost,
                    };
                    out.push(c);
                }
            }
            Step::RoundTrip { format } if *format != Format::Bincode => {
                let mut c = case.clone();
                c.schedule.steps[si] = Step::RoundTrip {
                    format: Format::Bincode,
                };
                out.push(c);
            }
            Step::Crash { hash_seed } if *hash_seed != 1 => {
                let mut c = case.clone();
                c.schedule.steps[si] = Step::Crash { hash_seed: 1 };
                out.push(c);
            }
            Step::CrashToOsProcess { hash_seed, .. } => {
                // prefer an in-process restart if the failure does not need a new OS process
                let mut c = case.clone();
                c.schedule.steps[si] = Step::Crash {
                    hash_seed: *hash_seed,
                };
                out.push(c);
            }
            _ => {}
        }
    }
    // Merge consecutive Run steps.
    for si in 0..case.schedule.steps.len().saturating_sub(1) {
        if let (Step::Run(a), Step::Run(b)) = (&case.schedule.steps[si], &case.schedule.steps[si + 1]) {
            let mut c = case.clone();
            c.schedule.steps[si] = Step::Run(a + b);
            c.schedule.steps.remove(si + 1);
            out.push(c);
        }
    }
    // Merge a line into its predecessor.
    for li in 1..n {
        let mut c = case.clone();
        let l = c.program.lines.remove(li);
        c.program.lines[li - 1].extend(l);
        out.push(c);
    }
    out
}

pub fn _unused(_: BTreeMap<u8, u8>) {}
