//! Seeded workload generators (swarm style: each run draws which op kinds are enabled, their
//! weights, key-space sizes, nesting cap, line and op counts).

use crate::driver::Format;
use crate::job::{Schedule, Step};
use crate::model::{Model, SPARE_CHARS};
use crate::ops::*;
use crate::rng::Rng;

#[derive(Clone, Debug)]
pub struct ScopeCfg {
    pub n_names: u8,
    pub n_active: u8,
    pub n_regs: usize,
    pub n_chars: usize,
    pub depth_cap: usize,
    pub lines: usize,
    pub ops_per_line: usize,
    /// Weights per op family, see `FAMILIES`.
    pub weights: Vec<u32>,
    pub p_global: u32,
    pub allow_globaldefs: bool,
    pub allow_unmatched_end: bool,
    /// Never assign \tracingmacros (the repository's hook prints to the real stdout).
    pub no_tracingmacros: bool,
}

pub const FAMILIES: [&str; 18] = [
    "begin",
    "end",
    "set_reg",
    "set_via_alias",
    "advance",
    "set_param",
    "set_cat",
    "def",
    "let",
    "regdef",
    "chardef",
    "font",
    "read_reg",
    "read_misc",
    "probe",
    "local_global_pair",
    "nest_redefine",
    "wide_group",
];

const REG_INDICES: [u16; 8] = [0, 1, 2, 255, 256, 3, 32767, 7];

pub fn scope_cfg(rng: &mut Rng) -> ScopeCfg {
    let mut weights = vec![0u32; FAMILIES.len()];
    for (i, w) in weights.iter_mut().enumerate() {
        // each family is enabled with probability 3/4 and gets a weight 1..8
        if rng.chance(3, 4) {
            *w = 1 + rng.below(8) as u32;
        }
        // structural families are always present
        if i <= 1 && *w == 0 {
            *w = 2;
        }
    }
    // Reads must exist, otherwise nothing is compared.
    if weights[12] + weights[13] + weights[14] == 0 {
        weights[12] = 4;
        weights[14] = 4;
    }
    // Something must be assigned.
    if weights[2..12].iter().sum::<u32>() == 0 {
        weights[2] = 4;
        weights[7] = 4;
    }
    ScopeCfg {
        n_names: 2 + rng.below(5) as u8,
        n_active: rng.below(3) as u8,
        n_regs: 2 + rng.below(7),
        n_chars: 1 + rng.below(3),
        depth_cap: rng.below(9),
        lines: 2 + rng.below(39),
        ops_per_line: 1 + rng.below(4),
        weights,
        p_global: [10, 30, 50, 70][rng.below(4)],
        allow_globaldefs: rng.chance(1, 2),
        allow_unmatched_end: rng.chance(1, 3),
        no_tracingmacros: false,
    }
}

pub struct ScopeGen<'a> {
    pub cfg: &'a ScopeCfg,
    pub rng: &'a mut Rng,
    pub model: Model,
    next_value: i32,
    next_body: u32,
    next_int: u16,
}

impl<'a> ScopeGen<'a> {
    pub fn new(cfg: &'a ScopeCfg, rng: &'a mut Rng, year: i32, day: i32) -> Self {
        ScopeGen {
            cfg,
            rng,
            model: Model::new(year, day),
            next_value: 100,
            next_body: 1,
            next_int: 0,
        }
    }

    fn target(&mut self) -> Target {
        let total = self.cfg.n_names as usize + self.cfg.n_active as usize;
        let i = self.rng.below(total);
        if i < self.cfg.n_names as usize {
            Target::Cs(i as u8)
        } else {
            Target::Active((i - self.cfg.n_names as usize) as u8)
        }
    }

    fn reg_idx(&mut self, kind: RegKind) -> u16 {
        let i = REG_INDICES[self.rng.below(self.cfg.n_regs.min(REG_INDICES.len()))];
        i.min(kind.max_index())
    }

    fn kind(&mut self) -> RegKind {
        *self
            .rng
            .pick(&[RegKind::Count, RegKind::Dimen, RegKind::Skip, RegKind::Toks])
    }

    fn g(&mut self) -> bool {
        self.rng.chance(self.cfg.p_global, 100)
    }

    fn value(&mut self, kind: RegKind) -> (i32, i32) {
        self.next_value += 1;
        let v = self.next_value;
        match kind {
            RegKind::Count => {
                if self.rng.chance(1, 12) {
                    (*self.rng.pick(&[2147483647, -2147483647, 0, -1]), 0)
                } else if self.rng.chance(1, 4) {
                    (-v, 0)
                } else {
                    (v, 0)
                }
            }
            RegKind::Dimen => {
                if self.rng.chance(1, 3) {
                    (-(v % 16000), 0)
                } else {
                    (v % 16000, 0)
                }
            }
            RegKind::Skip => {
                if self.rng.chance(1, 3) {
                    (-(v % 16000), -(1 + (v % 7)))
                } else {
                    (v % 16000, 1 + (v % 7))
                }
            }
            RegKind::Toks => (v, 0),
        }
    }

    fn ch(&mut self) -> u32 {
        SPARE_CHARS[self.rng.below(self.cfg.n_chars.min(SPARE_CHARS.len()) + 4).min(7)].0
    }

    fn param(&mut self) -> Param {
        let p = self.param_inner();
        if self.cfg.no_tracingmacros && p == Param::TracingMacros {
            Param::Day
        } else {
            p
        }
    }

    fn param_inner(&mut self) -> Param {
        let ps: &[Param] = if self.cfg.allow_globaldefs {
            &[
                Param::EndLineChar,
                Param::GlobalDefs,
                Param::GlobalDefs,
                Param::TracingMacros,
                Param::Year,
                Param::Day,
            ]
        } else {
            &[
                Param::EndLineChar,
                Param::TracingMacros,
                Param::Year,
                Param::Day,
            ]
        };
        *self.rng.pick(ps)
    }

    fn param_value(&mut self, p: Param) -> i32 {
        self.next_value += 1;
        match p {
            Param::GlobalDefs => *self.rng.pick(&[-1, 0, 0, 1, 1, -7, 9]),
            Param::EndLineChar => *self.rng.pick(&[-1, 13, 65, 90, 32, 200, 127]),
            _ => self.next_value,
        }
    }

    /// Draw the ops of one family; may return several ops (pairs on the same target).
    fn family(&mut self, f: usize) -> Vec<Op> {
        match FAMILIES[f] {
            "begin" => {
                if self.model.depth() < self.cfg.depth_cap {
                    vec![Op::Begin]
                } else {
                    vec![]
                }
            }
            "end" => {
                if self.model.depth() > 0 || self.cfg.allow_unmatched_end && self.rng.chance(1, 6)
                {
                    vec![Op::End]
                } else {
                    vec![]
                }
            }
            "set_reg" => {
                let kind = self.kind();
                let idx = self.reg_idx(kind);
                if self.rng.chance(1, 7) {
                    // from another register of the same kind (by value: a later change of the
                    // source must not show in the copy)
                    let from = self.reg_idx(kind);
                    return vec![Op::CopyReg {
                        g: self.g(),
                        kind,
                        from,
                        to: idx,
                    }];
                }
                let (v, w) = if self.rng.chance(1, 8) {
                    // re-assign the value the register holds right now (a write that changes
                    // nothing visible must still have its scoping effect)
                    let cur = self.model.reg(kind, idx);
                    if kind == RegKind::Skip {
                        cur
                    } else {
                        (cur.0, 0)
                    }
                } else {
                    self.value(kind)
                };
                vec![Op::SetReg {
                    g: self.g(),
                    kind,
                    idx,
                    v,
                    w,
                }]
            }
            "set_via_alias" => {
                let t = self.target();
                let (v, _) = self.value(RegKind::Toks);
                vec![Op::SetViaAlias { g: self.g(), t, v }]
            }
            "advance" => {
                let d = self.rng.range(-50, 50) as i32;
                if self.rng.chance(1, 4) {
                    let idx = self.reg_idx(RegKind::Count);
                    return vec![Op::Scale {
                        g: self.g(),
                        idx,
                        mul: self.rng.chance(1, 2),
                        k: *self.rng.pick(&[-3, -1, 1, 2, 3, 7]),
                    }];
                }
                if self.rng.chance(1, 10) {
                    let idx = self.reg_idx(RegKind::Count);
                    return vec![Op::FailedGlobalArith {
                        idx,
                        mul: self.rng.chance(1, 2),
                    }];
                }
                if self.rng.chance(1, 3) {
                    let t = self.target();
                    vec![Op::AdvanceViaAlias { g: self.g(), t, d }]
                } else {
                    let idx = self.reg_idx(RegKind::Count);
                    vec![Op::Advance { g: self.g(), idx, d }]
                }
            }
            "set_param" => {
                let p = self.param();
                let v = self.param_value(p);
                vec![Op::SetParam { g: self.g(), p, v }]
            }
            "set_cat" => {
                let ch = self.ch();
                let v = self.rng.below(16) as u8;
                vec![Op::SetCat { g: self.g(), ch, v }]
            }
            "def" => {
                let t = self.target();
                self.next_body += 1;
                let gdef = self.rng.chance(1, 4);
                vec![Op::Def {
                    g: !gdef && self.g(),
                    gdef,
                    t,
                    body: self.next_body,
                }]
            }
            "let" => {
                let t = self.target();
                let g = self.g();
                match self.rng.below(7) {
                    6 => vec![Op::LetUndefined { g, t }],
                    0 | 1 | 2 => {
                        let src = self.target();
                        vec![Op::LetCs { g, t, src }]
                    }
                    3 => {
                        let c = (b'A' + self.rng.below(26) as u8) as char;
                        vec![Op::LetChar { g, t, c }]
                    }
                    4 => vec![Op::LetPrim {
                        g,
                        t,
                        prim: self.rng.below(LET_PRIMS.len()) as u8,
                    }],
                    _ => vec![Op::LetFont {
                        g,
                        t,
                        font: 1 + self.rng.below(3) as u8,
                    }],
                }
            }
            "regdef" => {
                let t = self.target();
                let g = self.g();
                if self.rng.chance(1, 4) {
                    self.next_int += 1;
                    let id = self.next_int;
                    let mut ops = vec![Op::NewInt { t, id }];
                    // usually give it a value straight away, so that a later loss shows
                    if self.rng.chance(3, 4) {
                        self.next_value += 1;
                        ops.push(Op::SetViaAlias {
                            g: false,
                            t,
                            v: self.next_value,
                        });
                    }
                    ops
                } else if self.rng.chance(2, 3) {
                    let idx = self.reg_idx(RegKind::Count);
                    vec![Op::CountDef { g, t, idx }]
                } else {
                    let idx = self.reg_idx(RegKind::Toks);
                    vec![Op::ToksDef { g, t, idx }]
                }
            }
            "chardef" => {
                let t = self.target();
                vec![Op::CharDef {
                    t,
                    n: b'A' + self.rng.below(26) as u8,
                }]
            }
            "font" => vec![Op::Font {
                g: self.g(),
                font: 1 + self.rng.below(3) as u8,
            }],
            "read_reg" => {
                let kind = self.kind();
                let idx = self.reg_idx(kind);
                vec![Op::ReadReg { kind, idx }]
            }
            "read_misc" => {
                if self.rng.chance(1, 2) {
                    vec![Op::ReadParam { p: self.param() }]
                } else {
                    vec![Op::ReadCat { ch: self.ch() }]
                }
            }
            "probe" => vec![Op::Probe { t: self.target() }],
            "local_global_pair" => {
                // local-then-global or global-then-local on the same target, then read it.
                let first_global = self.rng.chance(1, 2);
                match self.rng.below(3) {
                    0 => {
                        let kind = self.kind();
                        let idx = self.reg_idx(kind);
                        let (v1, w1) = self.value(kind);
                        let (v2, w2) = self.value(kind);
                        vec![
                            Op::SetReg {
                                g: first_global,
                                kind,
                                idx,
                                v: v1,
                                w: w1,
                            },
                            Op::SetReg {
                                g: !first_global,
                                kind,
                                idx,
                                v: v2,
                                w: w2,
                            },
                            Op::ReadReg { kind, idx },
                        ]
                    }
                    1 => {
                        let t = self.target();
                        self.next_body += 2;
                        vec![
                            Op::Def {
                                g: first_global,
                                gdef: false,
                                t,
                                body: self.next_body - 1,
                            },
                            Op::Def {
                                g: !first_global,
                                gdef: false,
                                t,
                                body: self.next_body,
                            },
                            Op::Probe { t },
                        ]
                    }
                    _ => {
                        let ch = self.ch();
                        vec![
                            Op::SetCat {
                                g: first_global,
                                ch,
                                v: self.rng.below(16) as u8,
                            },
                            Op::SetCat {
                                g: !first_global,
                                ch,
                                v: self.rng.below(16) as u8,
                            },
                            Op::ReadCat { ch },
                        ]
                    }
                }
            }
            "nest_redefine" => {
                // Open several groups in one go and (re)define the same target locally at some of
                // the depths, skipping others: the shape that distinguishes "nearest enclosing
                // group that touched it" from "the directly enclosing group".
                let mut ops = vec![];
                let room = self.cfg.depth_cap.saturating_sub(self.model.depth());
                if room < 2 {
                    return vec![];
                }
                let levels = 2 + self.rng.below(room.min(5) - 1);
                let kind = self.rng.below(4);
                let t = self.target();
                let rk = self.kind();
                let idx = self.reg_idx(rk);
                let ch = self.ch();
                for l in 0..levels {
                    ops.push(Op::Begin);
                    // touch at this depth with probability 1/2, but always at the first level
                    if l == 0 || self.rng.chance(1, 2) {
                        match kind {
                            0 => {
                                self.next_body += 1;
                                ops.push(Op::Def {
                                    g: false,
                                    gdef: false,
                                    t,
                                    body: self.next_body,
                                });
                            }
                            1 => {
                                let (v, w) = self.value(rk);
                                ops.push(Op::SetReg {
                                    g: false,
                                    kind: rk,
                                    idx,
                                    v,
                                    w,
                                });
                            }
                            2 => ops.push(Op::SetCat {
                                g: false,
                                ch,
                                v: self.rng.below(16) as u8,
                            }),
                            _ => ops.push(Op::Font {
                                g: false,
                                font: 1 + self.rng.below(3) as u8,
                            }),
                        }
                    }
                }
                ops
            }
            "wide_group" => {
                // Many distinct variables (or names) assigned locally inside ONE group - 3 .. 70 of
                // them, around the sizes at which a small inline table, a hash map or a vector
                // changes shape - then a few of them assigned again (locally or globally), the
                // group closed, and the values read back.
                if self.model.depth() >= self.cfg.depth_cap {
                    return vec![];
                }
                let mut ops = vec![Op::Begin];
                let n = *self.rng.pick(&[3usize, 7, 8, 9, 15, 16, 17, 31, 32, 33, 64, 70]);
                let names = self.rng.chance(1, 4);
                let n = if names { n.min(26) } else { n };
                let rk = self.kind();
                let mut assign = |me: &mut Self, i: usize, g: bool| {
                    if names {
                        me.next_body += 1;
                        Op::Def {
                            g,
                            gdef: false,
                            t: Target::Cs(i as u8),
                            body: me.next_body,
                        }
                    } else {
                        let (v, w) = me.value(rk);
                        Op::SetReg {
                            g,
                            kind: rk,
                            idx: 10 + i as u16,
                            v,
                            w,
                        }
                    }
                };
                let read = |i: usize| {
                    if names {
                        Op::Probe {
                            t: Target::Cs(i as u8),
                        }
                    } else {
                        Op::ReadReg {
                            kind: rk,
                            idx: 10 + i as u16,
                        }
                    }
                };
                for i in 0..n {
                    ops.push(assign(self, i, false));
                }
                for _ in 0..(1 + self.rng.below(4)) {
                    let i = self.rng.below(n);
                    let g = self.g();
                    ops.push(assign(self, i, g));
                    ops.push(read(i));
                }
                if self.rng.chance(3, 4) {
                    ops.push(Op::End);
                }
                ops.push(read(0));
                ops.push(read(n - 1));
                for _ in 0..4 {
                    ops.push(read(self.rng.below(n)));
                }
                ops
            }
            _ => unreachable!(),
        }
    }

    /// Generate one line; the model is advanced so that later choices see the current state.
    pub fn gen_line(&mut self) -> Vec<Op> {
        let mut ops: Vec<Op> = vec![];
        let n = 1 + self.rng.below(self.cfg.ops_per_line);
        let mut guard = 0;
        while ops.len() < n && guard < 20 {
            guard += 1;
            let f = self.rng.weighted(&self.cfg.weights);
            let new = self.family(f);
            if new.is_empty() {
                continue;
            }
            // A line ends at the first op that is expected to raise a fatal error.
            let mut probe_model = self.model.clone();
            let mut all = ops.clone();
            all.extend(new.iter().cloned());
            let r = probe_model.line(&all);
            ops = all;
            if r.expect_err.is_some() {
                break;
            }
        }
        if ops.is_empty() {
            ops.push(Op::ReadReg {
                kind: RegKind::Count,
                idx: 0,
            });
        }
        let _ = self.model.line(&ops);
        ops
    }

    /// Final probe block: close nothing, read everything that was touched.
    pub fn probe_block(&mut self) -> Vec<Vec<Op>> {
        let mut lines: Vec<Vec<Op>> = vec![];
        let mut cur: Vec<Op> = vec![];
        for kind in [RegKind::Count, RegKind::Dimen, RegKind::Skip, RegKind::Toks] {
            for i in 0..self.cfg.n_regs.min(REG_INDICES.len()) {
                let idx = REG_INDICES[i].min(kind.max_index());
                cur.push(Op::ReadReg { kind, idx });
            }
        }
        lines.push(std::mem::take(&mut cur));
        for p in [
            Param::EndLineChar,
            Param::GlobalDefs,
            Param::TracingMacros,
            Param::Year,
            Param::Day,
        ] {
            cur.push(Op::ReadParam { p });
        }
        for (ch, _) in SPARE_CHARS.iter() {
            cur.push(Op::ReadCat { ch: *ch });
        }
        lines.push(std::mem::take(&mut cur));
        // One probe per line for names: an undefined one ends its line.
        for i in 0..self.cfg.n_names {
            lines.push(vec![Op::Probe { t: Target::Cs(i) }]);
        }
        for i in 0..self.cfg.n_active {
            lines.push(vec![Op::Probe {
                t: Target::Active(i),
            }]);
        }
        for l in &lines {
            let _ = self.model.line(l);
        }
        lines
    }
}

/// Generate a scoping program: body lines, then close all groups one per line with reads in
/// between, then the probe block.
pub fn gen_scope_program(cfg: &ScopeCfg, rng: &mut Rng, year: i32, day: i32) -> Program {
    let mut g = ScopeGen::new(cfg, rng, year, day);
    let mut lines = vec![];
    for _ in 0..cfg.lines {
        lines.push(g.gen_line());
    }
    // Close the open groups (sometimes leave them open: end of job inside groups is legal).
    if g.rng.chance(4, 5) {
        while g.model.depth() > 0 {
            let mut l = vec![Op::End];
            let kind = g.kind();
            let idx = g.reg_idx(kind);
            l.push(Op::ReadReg { kind, idx });
            let t = g.target();
            l.push(Op::Probe { t });
            let _ = g.model.line(&l);
            lines.push(l);
        }
    }
    lines.extend(g.probe_block());
    Program { lines }
}

#[derive(Clone, Debug)]
pub struct FaultCfg {
    pub crash_rate: u32,    // per line boundary, per mille
    pub ckpt_rate: u32,     // per line boundary, per mille
    pub lose_rate: u32,     // per checkpoint, per cent
    pub roundtrip_rate: u32, // per line boundary, per mille
    pub max_crashes: usize,
    pub max_ckpts: usize,
    pub format_weights: [u32; 3],
    /// Per crash, per mille: restart in a separate OS process with a tag skew.
    pub os_process_rate: u32,
}

pub fn fault_cfg(rng: &mut Rng) -> FaultCfg {
    FaultCfg {
        crash_rate: [30, 60, 120, 250][rng.below(4)],
        ckpt_rate: [60, 120, 250, 500][rng.below(4)],
        lose_rate: [0, 10, 30, 60][rng.below(4)],
        roundtrip_rate: [0, 0, 40, 120][rng.below(4)],
        max_crashes: 1 + rng.below(4),
        max_ckpts: 1 + rng.below(6),
        // json is ~10x slower than bincode; keep it present but rarer
        format_weights: [2, 3, 5],
        os_process_rate: 0,
    }
}

/// Draw a fault schedule for a job of `nlines` lines.
pub fn gen_schedule(fc: &FaultCfg, rng: &mut Rng, nlines: usize, first_hash_seed: u64) -> Schedule {
    let mut steps = vec![];
    let mut crashes = 0;
    let mut ckpts = 0;
    let mut pos = 0usize; // current line position of the simulated job
    let mut last_ckpt_pos: Option<usize> = None;
    let mut budget = nlines * 4 + 8; // bound on total executed lines
    while pos < nlines && budget > 0 {
        steps.push(Step::Run(1));
        pos += 1;
        budget -= 1;
        if ckpts < fc.max_ckpts && rng.chance(fc.ckpt_rate, 1000) {
            let format = Format::ALL[rng.weighted(&fc.format_weights)];
            let lost = rng.chance(fc.lose_rate, 100);
            steps.push(Step::Checkpoint { format, lost });
            ckpts += 1;
            if !lost {
                last_ckpt_pos = Some(pos);
            }
        }
        if rng.chance(fc.roundtrip_rate, 1000) {
            let format = Format::ALL[rng.weighted(&fc.format_weights)];
            steps.push(Step::RoundTrip { format });
        }
        if crashes < fc.max_crashes && rng.chance(fc.crash_rate, 1000) {
            // Bias: half of the crashes land right after a checkpoint was just taken.
            if rng.chance(fc.os_process_rate, 1000) && last_ckpt_pos.is_some() {
                steps.push(Step::CrashToOsProcess {
                    hash_seed: rng.next_u64(),
                    tag_skew: 1 + rng.below(40) as u32,
                });
            } else {
                steps.push(Step::Crash {
                    hash_seed: rng.next_u64(),
                });
            }
            crashes += 1;
            pos = last_ckpt_pos.unwrap_or(0);
        }
    }
    Schedule {
        first_hash_seed,
        steps,
    }
}
