//! Raw (unmodelled) workload pieces for the differential checkpoint oracle (C08): everything a
//! checkpoint must carry that the scoping model does not describe — macros with parameters,
//! conditionals left open across lines, allocated variables, math codes, interaction modes and
//! recovered errors, read streams left mid-file, `\input`, fresh names, catcode-dependent lexing.
//!
//! Raw pieces use their own name space (`\x..`, `\z..`), registers 10..19 and characters
//! (`! ? [ ] < ß`) so that they never disturb the state the scoping model predicts.

use crate::driver::EnvSpec;
use crate::rng::Rng;

#[derive(Clone, Debug)]
enum MacroKind {
    Undelimited(usize),
    DelimDotSemi,
    DelimOverlap,
    NoParams,
    Nine,
    PrefixText,
    BraceDelim,
    CsDelim,
    /// A delimiter drawn over a two-letter alphabet (self-overlapping more often than not); calls
    /// carry near misses before the real delimiter.
    DelimRandom(String),
}

#[derive(Clone, Debug, PartialEq)]
enum Cond {
    IfTrueBranch,
    ElseBranch,
    CaseBranch,
}

pub struct RawGen {
    macros: Vec<(String, MacroKind)>,
    conds: Vec<Cond>,
    ints: Vec<String>,
    arrays: Vec<(String, usize)>,
    streams: [Option<usize>; 16],
    fresh: Vec<String>,
    next_id: u32,
    pub n_read_files: usize,
    pub n_input_files: usize,
    bang_active: bool,
    brackets_group: bool,
    pub weights: Vec<u32>,
    pub reach: Vec<&'static str>,
    pub term_lines: usize,
    shadow_groups: usize,
    /// 0: `\time` is the built-in; 1: globally redefined as a macro (the built-in saved under
    /// another name); 2: inside a group that has locally put the built-in back under its own name.
    unshadow: u8,
}

pub const RAW_FAMILIES: [&str; 22] = [
    "defmacro",
    "callmacro",
    "cond_open",
    "cond_close",
    "alloc",
    "mathcode",
    "mode",
    "recoverable_error",
    "stream_open",
    "stream_read",
    "stream_misc",
    "input",
    "misc_read",
    "fresh_name",
    "toks_cs",
    "own_catcode",
    "expandafter",
    "let_builtin",
    "shadow_builtin",
    "frac_dimen",
    "burst",
    "dump",
];

fn name_from(mut n: u32) -> String {
    let mut s = String::new();
    loop {
        s.push((b'a' + (n % 26) as u8) as char);
        n /= 26;
        if n == 0 {
            break;
        }
    }
    s
}

impl RawGen {
    pub fn new(rng: &mut Rng) -> RawGen {
        let mut weights = vec![0u32; RAW_FAMILIES.len()];
        for w in weights.iter_mut() {
            if rng.chance(2, 3) {
                *w = 1 + rng.below(6) as u32;
            }
        }
        // \dump is expensive (it serialises the VM inside the run): keep it rare.
        let d = RAW_FAMILIES.len() - 1;
        weights[d] = if rng.chance(1, 6) { 1 } else { 0 };
        if weights.iter().sum::<u32>() == 0 {
            weights[0] = 3;
            weights[1] = 3;
        }
        RawGen {
            macros: vec![],
            conds: vec![],
            ints: vec![],
            arrays: vec![],
            streams: [None; 16],
            fresh: vec![],
            next_id: 0,
            n_read_files: 1 + rng.below(4),
            n_input_files: 1 + rng.below(3),
            bang_active: false,
            brackets_group: false,
            weights,
            reach: vec![],
            term_lines: 0,
            shadow_groups: 0,
            unshadow: 0,
        }
    }

    /// For the configuration that runs on the repository's own StdLibState (real file system,
    /// stdin and stdout): switch off every family that touches files, the terminal, interaction
    /// modes (recovered errors would be printed to the real stdout) or the disk.
    pub fn restrict_to_pure(&mut self) {
        for (i, f) in RAW_FAMILIES.iter().enumerate() {
            if matches!(
                *f,
                "mode" | "stream_open" | "stream_read" | "stream_misc" | "input" | "dump"
            ) {
                self.weights[i] = 0;
            }
        }
        if self.weights.iter().sum::<u32>() == 0 {
            self.weights[0] = 3;
            self.weights[1] = 3;
        }
    }

    fn id(&mut self) -> u32 {
        self.next_id += 1;
        self.next_id
    }

    /// Environment (files, terminal script) the raw pieces refer to.
    pub fn env(&self, rng: &mut Rng) -> EnvSpec {
        let mut files = vec![];
        let vocab = [
            "Ra", "Rb{c}", "R d", "{Re", "Rf}", "", "Rg%", "  Rh  ", "{", "}", "Ri}Rj", "R{k}l",
        ];
        for i in 0..self.n_read_files {
            let n = rng.below(6);
            let mut s = String::new();
            for k in 0..n {
                s.push_str(vocab[rng.below(vocab.len())]);
                if k + 1 < n || rng.chance(2, 3) {
                    s.push('\n');
                }
            }
            files.push((format!("r{i}.tex"), s.into_bytes()));
        }
        let ivocab = [
            "Ga%",
            "\\def\\xga{Gb}%",
            "\\count14=77 %",
            "{\\count15=3 %",
            "}%",
            "\\iftrue Gc%",
            "\\fi Gd%",
            "Ge \\xga %",
            "\\global\\count16=9 %",
            "Gf",
        ];
        for i in 0..self.n_input_files {
            let n = rng.below(5);
            let mut s = String::new();
            for k in 0..n {
                s.push_str(ivocab[rng.below(ivocab.len())]);
                if k + 1 < n || rng.chance(2, 3) {
                    s.push('\n');
                }
            }
            files.push((format!("g{i}.tex"), s.into_bytes()));
        }
        let mut terminal = vec![];
        for i in 0..(2 + rng.below(6)) {
            terminal.push(
                ["Ta", "Tb{c}", "{Td", "Te}", "Tf Tg", ""][rng.below(6)].to_string()
                    + &format!("{i}"),
            );
        }
        EnvSpec {
            files,
            terminal,
            fs_read_faults: vec![],
            term_faults: vec![],
            unreadable: vec![],
            fs_write_faults: vec![],
            file_updates: vec![],
            no_working_directory: false,
        }
    }

    /// One line that reads every allocated integer and array element (at most 60 reads).
    pub fn alloc_probe_line(&self) -> Option<String> {
        let mut s = String::new();
        let mut n = 0;
        for i in self.ints.iter() {
            s.push_str(&format!("\\the{i};"));
            n += 1;
        }
        for (a, len) in self.arrays.iter() {
            for i in 0..*len {
                if n >= 60 {
                    break;
                }
                s.push_str(&format!("\\the{a} {i};"));
                n += 1;
            }
        }
        if n == 0 {
            None
        } else {
            Some(s)
        }
    }

    pub fn open_conditionals(&self) -> usize {
        self.conds.len()
    }
    pub fn open_streams(&self) -> usize {
        self.streams.iter().filter(|s| s.is_some()).count()
    }

    /// One inline raw piece. The text leaves no construct half-open except what is tracked here.
    pub fn piece(&mut self, rng: &mut Rng) -> Option<String> {
        let f = rng.weighted(&self.weights);
        match RAW_FAMILIES[f] {
            "defmacro" => {
                let id = self.id();
                let name = format!("\\xm{}", name_from(id));
                let pre = ["", "", "\\global", "\\long", "\\outer", "\\global\\long", "\\long\\global", "\\outer\\long\\global"][rng.below(8)];
                let def = if rng.chance(1, 5) { "\\gdef" } else { "\\def" };
                let pre = if def == "\\gdef" && pre.contains("global") { "" } else { pre };
                let (params, body, kind) = match rng.below(10) {
                    5 => (
                        "#1#2#3#4#5#6#7#8#9".to_string(),
                        format!("<#9#1#5|{id}|#2#3#4#6#7#8>"),
                        MacroKind::Nine,
                    ),
                    // text before the first parameter, a doubled parameter character in the body
                    6 => ("X\u{e9}#1".to_string(), format!("[{id}##:#1]"), MacroKind::PrefixText),
                    // the #{ form: the parameter is delimited by the brace, which stays in the input
                    7 => ("#1#".to_string(), format!("[{id}~#1]").replace('~', "="), MacroKind::BraceDelim),
                    // delimiters that are a control sequence and a character beyond the BMP
                    8 => ("#1\\relax#2\u{1d538}".to_string(), format!("[#2,{id},#1]"), MacroKind::CsDelim),
                    9 => {
                        let mut pat = String::new();
                        if rng.chance(1, 2) {
                            // a run, a break, a tail: the shape whose borders nest
                            let (a, b) = if rng.chance(1, 2) { ('-', '>') } else { ('>', '-') };
                            for _ in 0..2 + rng.below(3) {
                                pat.push(a);
                            }
                            pat.push(b);
                            for _ in 0..1 + rng.below(3) {
                                pat.push(if rng.chance(1, 2) { a } else { b });
                            }
                        } else {
                            for _ in 0..2 + rng.below(6) {
                                // biased towards runs, which is what makes borders long
                                pat.push(if rng.chance(2, 3) { '-' } else { '>' });
                            }
                        }
                        (format!("#1{pat}"), format!("[#1|{id}]"), MacroKind::DelimRandom(pat))
                    }
                    0 => ("#1#2".to_string(), format!("<#2|#1|{id}>"), MacroKind::Undelimited(2)),
                    1 => ("#1".to_string(), format!("({id}:#1#1)"), MacroKind::Undelimited(1)),
                    2 => ("#1.#2;".to_string(), format!("[#1/#2/{id}]"), MacroKind::DelimDotSemi),
                    3 => ("#1aab".to_string(), format!("(#1!{id})"), MacroKind::DelimOverlap),
                    _ => (String::new(), format!("N{id}."), MacroKind::NoParams),
                };
                // Sometimes call an earlier macro from the body.
                let body = if !self.macros.is_empty() && rng.chance(1, 4) {
                    let (n, k) = self.macros[rng.below(self.macros.len())].clone();
                    format!("{body}{}", Self::call_text(&n, &k, 0))
                } else {
                    body
                };
                let body = if self.bang_active { body.replace('!', "+") } else { body };
                self.macros.push((name.clone(), kind));
                self.reach.push("macro_with_parameters_defined");
                Some(format!("{pre}{def}{name}{params}{{{body}}}"))
            }
            "callmacro" => {
                if self.macros.is_empty() {
                    return None;
                }
                let (n, k) = self.macros[rng.below(self.macros.len())].clone();
                let v = self.id();
                Some(format!("{};", Self::call_text(&n, &k, v)))
            }
            "cond_open" => {
                if self.conds.len() >= 4 {
                    return None;
                }
                let (text, c) = match rng.below(7) {
                    0 => ("\\iftrue ".to_string(), Cond::IfTrueBranch),
                    1 => ("\\ifnum 3<5 ".to_string(), Cond::IfTrueBranch),
                    2 => ("\\ifodd 3 ".to_string(), Cond::IfTrueBranch),
                    3 => ("\\iffalse Skip\\else ".to_string(), Cond::ElseBranch),
                    4 => ("\\ifnum 7<5 Skip\\iftrue a\\fi\\else ".to_string(), Cond::ElseBranch),
                    5 => ("\\ifcase 1 Skip\\or ".to_string(), Cond::CaseBranch),
                    _ => ("\\ifcase 5 Skip\\or Skip\\else ".to_string(), Cond::ElseBranch),
                };
                self.conds.push(c);
                self.reach.push("conditional_left_open");
                Some(text)
            }
            "cond_close" => {
                let c = self.conds.pop()?;
                Some(match c {
                    Cond::IfTrueBranch => {
                        if rng.chance(1, 2) {
                            "\\else Skip\\fi ".to_string()
                        } else {
                            "\\fi ".to_string()
                        }
                    }
                    Cond::ElseBranch => "\\fi ".to_string(),
                    Cond::CaseBranch => {
                        if rng.chance(1, 2) {
                            "\\or Skip\\or Skip\\else Skip\\fi ".to_string()
                        } else {
                            "\\fi ".to_string()
                        }
                    }
                })
            }
            "alloc" => {
                let id = self.id();
                match rng.below(7) {
                    6 => {
                        // an existing array name declared again with another length (locally, if a
                        // group is open: the old array comes back when the group ends). Afterwards
                        // only element 0 of that name is used, which exists under either length.
                        if self.arrays.is_empty() {
                            return None;
                        }
                        let k = rng.below(self.arrays.len());
                        let n = self.arrays[k].0.clone();
                        let len = 1 + rng.below(5);
                        self.arrays[k].1 = 1;
                        self.reach.push("array_declared_again");
                        Some(format!("{n} 0={} \\newIntArray{n} {len} {n} 0={} \\the{n} 0;", id, id + 1))
                    }
                    4 => {
                        // read back, possibly long after the write and after groups have closed
                        let n = self.ints.get(rng.below(self.ints.len().max(1)))?.clone();
                        Some(format!("\\the{n};"))
                    }
                    5 => {
                        let (n, len) = self.arrays.get(rng.below(self.arrays.len().max(1)))?.clone();
                        let i = rng.below(len);
                        self.reach.push("array_element_read_back");
                        Some(format!("\\the{n} {i};"))
                    }
                    0 => {
                        let n = format!("\\xi{}", name_from(id));
                        self.ints.push(n.clone());
                        self.reach.push("newint_allocated");
                        Some(format!("\\newInt{n} {n}={} ", id))
                    }
                    1 => {
                        // the first allocation makes two or three arrays, so that there is an
                        // order of arrays for a checkpoint to preserve
                        let k = if self.arrays.is_empty() { 2 + rng.below(2) } else { 1 };
                        let mut s = String::new();
                        for j in 0..k {
                            let n = format!("\\xj{}", name_from(id * 4 + j as u32));
                            let len = 1 + rng.below(4);
                            self.arrays.push((n.clone(), len));
                            self.reach.push("newintarray_allocated");
                            s.push_str(&format!("\\newIntArray{n} {len} {n} 0={} ", id + j as u32));
                        }
                        Some(s)
                    }
                    2 => {
                        let n = self.ints.get(rng.below(self.ints.len().max(1)))?.clone();
                        Some(format!("{n}={} \\the{n};", id))
                    }
                    _ => {
                        // write one element of up to three arrays (locally, if a group is open)
                        if self.arrays.is_empty() {
                            return None;
                        }
                        let mut s = String::new();
                        let first = rng.below(self.arrays.len());
                        for j in 0..self.arrays.len().min(3) {
                            let (n, len) = self.arrays[(first + j) % self.arrays.len()].clone();
                            let i = rng.below(len);
                            s.push_str(&format!("{n} {i}={} \\the{n} {i};", id + j as u32));
                        }
                        Some(s)
                    }
                }
            }
            "mathcode" => {
                let id = self.id();
                Some(match rng.below(4) {
                    0 => format!("\\mathcode{}={} ", [65, 200, 5000][rng.below(3)], id % 32768),
                    1 => format!("\\the\\mathcode{};", [65, 200, 5000][rng.below(3)]),
                    2 => format!("\\mathchardef\\xmc={} \\the\\xmc;", id % 32768),
                    _ => format!("\\global\\mathcode{}={} ", [65, 200, 5000][rng.below(3)], id % 32768),
                })
            }
            "mode" => {
                self.reach.push("interaction_mode_switched");
                Some(
                    ["\\scrollmode ", "\\nonstopmode ", "\\batchmode ", "\\errorstopmode "]
                        [rng.below(4)]
                    .to_string(),
                )
            }
            "recoverable_error" => {
                self.reach.push("recoverable_error_attempted");
                Some(
                    [
                        "a\\else b;",
                        "a\\fi b;",
                        "\\countdef 260 End;",
                        "\\catcode 1=16 \\the\\catcode 1;",
                        "\\count13=X;",
                        "\\advance\\count13 by X;",
                        "\\count300000=5 \\the\\count13;",
                        "\\mathcode 1=40000 ;",
                        "\\divide\\count13 by 0 ;",
                        "\\chardef\\xc=-1 ;",
                        "\\ifnum 3 z 4 y\\fi;",
                    ][rng.below(11)]
                    .to_string(),
                )
            }
            "stream_open" => {
                let n = [0usize, 1, 7, 15][rng.below(4)];
                if rng.chance(1, 6) {
                    self.streams[n] = None;
                    return Some(format!("\\openin{n}=nosuchfile "));
                }
                let f = rng.below(self.n_read_files);
                self.streams[n] = Some(f);
                self.reach.push("read_stream_opened");
                Some(format!("\\openin{n}=r{f} "))
            }
            "stream_read" => {
                let n = [0usize, 1, 7, 15][rng.below(4)];
                if self.streams[n].is_none() {
                    // would read the terminal: only do that rarely, and count the line
                    if !rng.chance(1, 4) {
                        return None;
                    }
                    self.term_lines += 1;
                    self.reach.push("terminal_read");
                }
                let id = self.id();
                let t = format!("\\xr{}", name_from(id % 5));
                Some(format!("\\read{n} to{t} (\\ifeof{n} E\\else N\\fi)"))
            }
            "stream_misc" => {
                let n = [0usize, 1, 7, 15][rng.below(4)];
                Some(match rng.below(3) {
                    0 => {
                        self.streams[n] = None;
                        format!("\\closein{n} ")
                    }
                    1 => format!("\\ifeof{n} E\\else N\\fi;"),
                    _ => {
                        let id = self.id();
                        format!("\\xr{} ;", name_from(id % 5))
                    }
                })
            }
            "input" => {
                let f = rng.below(self.n_input_files);
                self.reach.push("input_file");
                Some(format!("\\input g{f} ;"))
            }
            "misc_read" => Some(
                [
                    "\\jobname;",
                    "\\the\\time;",
                    "\\the\\month;",
                    "\\the\\count14;\\the\\count15;\\the\\count16;",
                    "\\the\\dumpFormat;",
                    "\\xga ;",
                ][rng.below(6)]
                .to_string(),
            ),
            "fresh_name" => {
                let id = self.id();
                let n = match rng.below(8) {
                    // control symbols (one character that is not a letter, also beyond ASCII / the BMP)
                    0 => ["\\+", "\\1", "\\\u{e9}", "\\\u{1d538}", "\\.", "\\\u{3bb}"][rng.below(6)].to_string(),
                    // a very long name
                    1 => format!("\\zl{}{}", "x".repeat([100, 255, 256, 300][rng.below(4)]), name_from(id)),
                    // names that differ in case only
                    2 => format!("\\zQ{}", name_from(id % 7).to_uppercase()),
                    3 => format!("\\zQ{}", name_from(id % 7)),
                    _ => format!("\\zq{}", name_from(id.wrapping_mul(7919))),
                };
                if rng.chance(1, 8) {
                    // interned but never defined: a name that only ever appears on the right of \let
                    self.reach.push("name_interned_but_undefined");
                    return Some(format!("\\let\\zqtmp={n}u "));
                }
                if rng.chance(1, 2) || self.fresh.is_empty() {
                    self.fresh.push(n.clone());
                    self.reach.push("fresh_control_sequence_interned");
                    Some(format!("\\def{n}{{F{id}.}}"))
                } else {
                    let n = self.fresh[rng.below(self.fresh.len())].clone();
                    Some(format!("{n} ;"))
                }
            }
            "toks_cs" => {
                let id = self.id();
                if rng.chance(1, 2) && !self.macros.is_empty() {
                    let (n, k) = self.macros[rng.below(self.macros.len())].clone();
                    Some(format!("\\toks12={{{}}}", Self::call_text(&n, &k, id)))
                } else {
                    Some("\\the\\toks12;".to_string())
                }
            }
            "own_catcode" => Some(match rng.below(7) {
                0 => {
                    self.bang_active = true;
                    self.reach.push("own_active_character");
                    let id = self.id();
                    format!("\\catcode33=13 \\def!{{B{id}.}}")
                }
                1 => {
                    if self.bang_active {
                        "!;".to_string()
                    } else {
                        return None;
                    }
                }
                2 => {
                    self.brackets_group = true;
                    "\\global\\catcode91=1 \\global\\catcode93=2 ".to_string()
                }
                3 => {
                    if self.brackets_group {
                        "[\\count17=4 \\the\\count17;]\\the\\count17;".to_string()
                    } else {
                        return None;
                    }
                }
                4 => "\\catcode223=11 \\def\\xß{S.}\\xß ;".to_string(),
                5 => "\\catcode60=0 <relax \\catcode60=12 ".to_string(),
                _ => "\\catcode63=14 ?comment \\catcode63=12 ".to_string(),
            }),
            "expandafter" => {
                if self.macros.is_empty() {
                    return Some("\\expandafter\\relax\\relax;".to_string());
                }
                Some(
                    [
                        "\\expandafter\\def\\expandafter\\xea\\expandafter{\\jobname}\\xea;",
                        "\\noexpand\\jobname;",
                        "\\expandafter\\relax\\jobname;",
                    ][rng.below(3)]
                    .to_string(),
                )
            }
            "let_builtin" => {
                // \let aliases of many different built-ins (execution, expansion, variable,
                // conditional), used after later checkpoints.
                self.reach.push("let_alias_of_builtin");
                let id = self.id();
                Some(
                    [
                        "\\let\\xla=\\def \\xla\\xlq{L1.}\\xlq ;",
                        "\\let\\xlb=\\count \\xlb11=7 \\the\\xlb11;",
                        "\\let\\xlc=\\ifnum \\xlc 1<2 T\\else F\\fi;",
                        "\\let\\xld=\\advance \\xld\\count11 by 1 \\the\\count11;",
                        "\\let\\xle=\\global \\xle\\count11=3 ",
                        "\\let\\xlf=\\expandafter \\xlf\\relax\\relax;",
                        "\\let\\xlg=\\fi \\iftrue G\\xlg;",
                        "\\let\\xlh=\\year \\the\\xlh;",
                        "\\let\\xli=\\catcode \\the\\xli 65;",
                        "\\xlq ;\\the\\xlb11;\\xlc 3<2 T\\else F\\fi;\\the\\xlh;",
                        "\\let\\xlj=\\let \\xlj\\xlk=\\jobname \\xlk;",
                        "\\let\\xll=\\countdef \\xll\\xlm=12 \\xlm=4 \\the\\count12;",
                    ][id as usize % 12]
                    .to_string(),
                )
            }
            "shadow_builtin" if rng.chance(1, 3) => {
                // The inverse shape: the built-in's name is globally a macro and a group puts the
                // built-in back under its own name, locally; closed on a later line.
                match self.unshadow {
                    0 => {
                        self.unshadow = 1;
                        self.reach.push("builtin_name_globally_redefined");
                        Some("\\global\\let\\xot=\\time \\gdef\\time{GT.}\\time;".to_string())
                    }
                    1 => {
                        if rng.chance(1, 2) {
                            self.unshadow = 2;
                            self.reach.push("builtin_restored_locally_under_its_own_name");
                            Some("{\\let\\time=\\xot \\the\\time;".to_string())
                        } else {
                            Some("\\time;\\the\\xot;".to_string())
                        }
                    }
                    _ => {
                        self.unshadow = 1;
                        Some("\\the\\time;}\\time;".to_string())
                    }
                }
            }
            "shadow_builtin" => {
                // A built-in name redefined locally; the group is closed on a later line, possibly
                // after a checkpoint, which must bring the built-in back.
                if self.shadow_groups > 0 && self.shadow_groups < 300 && rng.chance(1, 2) {
                    self.shadow_groups -= 1;
                    self.reach.push("shadowed_builtin_restored_by_group_end");
                    Some("\\month;}\\the\\month;".to_string())
                } else if self.shadow_groups < 2 {
                    self.shadow_groups += 1;
                    self.reach.push("builtin_shadowed_in_group");
                    Some(
                        [
                            "{\\def\\month{SHADOW.}",
                            "{\\let\\month=\\jobname ",
                            "{\\countdef\\month=13 \\month=6 ",
                        ][rng.below(3)]
                        .to_string(),
                    )
                } else {
                    None
                }
            }
            "frac_dimen" => {
                // Negative and fractional dimensions and glue components (also saved by groups).
                self.reach.push("fractional_or_negative_dimension");
                let vals = ["-1.5pt", "-0.25pt", "0.33333pt", "-16383.99998pt", "1.99999pt", "-.00002pt", "12.3456pt", "-7.5pt"];
                let v = vals[rng.below(vals.len())];
                let w = vals[rng.below(vals.len())];
                Some(match rng.below(5) {
                    0 => format!("\\dimen14={v} \\the\\dimen14;"),
                    1 => format!("\\skip14={v} plus {w} minus {v}\\relax \\the\\skip14;"),
                    2 => format!("\\global\\dimen15={v} "),
                    3 => "\\the\\dimen14;\\the\\dimen15;\\the\\skip14;\\the\\skip15;".to_string(),
                    _ => format!(
                        "\\skip15={} plus {}{} minus {}{}\\relax \\the\\skip15;",
                        ["0pt", "-1.5pt", "3pt"][rng.below(3)],
                        v.trim_end_matches("pt"),
                        ["fil", "fill", "filll", "pt"][rng.below(4)],
                        w.trim_end_matches("pt"),
                        ["fil", "fill", "filll", "pt"][rng.below(4)],
                    ),
                })
            }
            "burst" => {
                // Sizes that cross the length-encoding boundaries of the binary formats (256,
                // 65536) and the small-size assumptions of containers: many names, long bodies,
                // many open groups, many open conditionals.
                let id = self.id();
                Some(match rng.below(8) {
                    0 => {
                        self.reach.push("burst_300_fresh_names");
                        let mut t = String::new();
                        for k in 0..300u32 {
                            t.push_str(&format!("\\def\\zb{}{{{}}}", name_from(id * 1000 + k), k % 10));
                        }
                        t.push_str(&format!("\\zb{} ;", name_from(id * 1000 + 299)));
                        t
                    }
                    1 => {
                        self.reach.push("burst_macro_body_300_tokens");
                        format!("\\def\\xbig{{{}}}", "Ab1 ".repeat(75))
                    }
                    2 => {
                        self.reach.push("burst_toks_300_tokens");
                        format!("\\toks13={{{}}}", "\\relax c{d}".repeat(60))
                    }
                    3 => "\\xbig;\\the\\toks13;".to_string(),
                    4 => {
                        if self.shadow_groups == 0 {
                            self.shadow_groups += 300;
                            self.reach.push("burst_300_open_groups");
                            format!("{}\\count19={id} ", "{".repeat(300))
                        } else {
                            return None;
                        }
                    }
                    5 => {
                        if self.shadow_groups >= 300 {
                            self.shadow_groups -= 300;
                            format!("\\the\\count19;{}\\the\\count19;", "}".repeat(300))
                        } else {
                            return None;
                        }
                    }
                    6 => {
                        if rng.chance(1, 6) {
                            self.reach.push("burst_macro_body_70000_tokens");
                            format!("\\def\\xhuge{{{}}}", "xyz ".repeat(17500))
                        } else {
                            return None;
                        }
                    }
                    _ => {
                        self.reach.push("burst_40_open_conditionals");
                        format!("{}C{id};{}", "\\iftrue ".repeat(40), "\\fi ".repeat(40))
                    }
                })
            }
            "dump" => {
                self.reach.push("dump_primitive");
                let fmt = rng.below(3);
                let val = rng.below(2);
                Some(format!("\\dumpFormat={fmt} \\dumpValidate={val} \\dump "))
            }
            _ => None,
        }
    }

    fn call_text(name: &str, kind: &MacroKind, v: u32) -> String {
        match kind {
            MacroKind::Undelimited(2) => format!("{name}{{P{v}}}Q"),
            MacroKind::Undelimited(_) => format!("{name}{{P{v}}}"),
            MacroKind::DelimDotSemi => format!("{name} A{v}.B;"),
            MacroKind::DelimOverlap => format!("{name} aaaaab{v}aab"),
            MacroKind::NoParams => format!("{name} "),
            MacroKind::Nine => format!("{name} abc{{P{v}}}efghi"),
            MacroKind::PrefixText => format!("{name} X\u{e9}{{P{v}}}"),
            MacroKind::BraceDelim => format!("{name} P{v}{{}}"),
            MacroKind::CsDelim => format!("{name} P{v}\\relax Q\u{1d538}"),
            MacroKind::DelimRandom(pat) => {
                // near misses: prefixes and suffixes of the delimiter and single letters, in any
                // order (a pure function of v)
                let mut x = (v as u64).wrapping_mul(0x9E37_79B9_7F4A_7C15) | 1;
                let mut next = || {
                    x = x.wrapping_mul(6364136223846793005).wrapping_add(1442695040888963407);
                    (x >> 33) as usize
                };
                let mut t = String::new();
                if next() % 2 == 0 && pat.len() >= 3 {
                    // the classical hard input: a proper prefix, then the delimiter shifted by one
                    // or two places
                    let j = 2 + next() % (pat.len() - 2);
                    t.push_str(&pat[..j]);
                    t.push_str(&pat[1 + next() % 2..]);
                }
                for _ in 0..next() % 5 {
                    match next() % 4 {
                        0 | 1 => t.push_str(&pat[..1 + next() % pat.len()]),
                        2 => t.push_str(&pat[next() % pat.len()..]),
                        _ => t.push(if next() % 2 == 0 { '-' } else { '>' }),
                    }
                }
                format!("{name} {t}x{v}{t}{pat}{t}{pat}")
            }
        }
    }

    /// A whole line without the trailing `%`, so that the end-of-line character is observable.
    pub fn whole_line(&mut self, rng: &mut Rng) -> String {
        self.reach.push("line_with_visible_end_of_line");
        let id = self.id();
        match rng.below(10) {
            0 => format!("W{id}"),
            1 => format!("W{id} \\relax"),
            2 => format!("\\count18={id}"),
            3 => format!("W{id}   "),
            // Multi-line sources: positions of errors on later lines depend on the tracer state.
            4 => format!("W{id}\nX{id} \\undefinedcs Y"),
            5 => format!("W{id}%\n\n  é{id}\\count18=x"),
            // a backslash at the end of a line is the control symbol whose name is the end-of-line
            // character; it can be defined and used like any other name
            6 => format!("\\def\\\n{{W{id}.}}A\\\nB"),
            // ... and used in a later source (after a restore, with luck); undefined if it was
            // never defined, which is an ordinary located error
            7 => format!("U{id}\\\nV"),
            8 => format!("\\def\\\n{{W{id}.}}"),
            _ => format!("\\count18={id}\nV\\the\\count18\n\\fi"),
        }
    }
}
