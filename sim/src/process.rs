//! Simulated processes.
//!
//! A "process" is a fresh OS thread whose `std::collections::hash_map::RandomState`
//! keys come from a simulator-owned seed. std obtains those keys once per thread by
//! calling the libc symbol `getrandom`; this binary defines that symbol, so the keys
//! are a pure function of the seed the simulator published for the thread.
//!
//! A VM is created, used and dropped inside one process; only plain data crosses.

use std::cell::{Cell, RefCell};
use std::panic;

use crate::rng;

thread_local! {
    /// Hash seed of the current simulated process (None on harness threads).
    static HASH_SEED: Cell<Option<u64>> = const { Cell::new(None) };
    /// Number of getrandom calls served on this thread (for the determinism self-check).
    static GETRANDOM_CALLS: Cell<u64> = const { Cell::new(0) };
    /// Last panic seen on this thread: (location "file:line", message).
    static LAST_PANIC: RefCell<Option<(String, String)>> = const { RefCell::new(None) };
}

/// Interposed `getrandom(2)` wrapper. std's `hashmap_random_keys` calls this.
///
/// # Safety
/// `buf` must point to `len` writable bytes (the libc contract).
#[no_mangle]
pub unsafe extern "C" fn getrandom(buf: *mut u8, len: usize, _flags: u32) -> isize {
    let seed = HASH_SEED
        .try_with(|s| s.get())
        .ok()
        .flatten()
        .unwrap_or(0x5EED_0000_0000_0001);
    let n = GETRANDOM_CALLS
        .try_with(|c| {
            let n = c.get();
            c.set(n + 1);
            n
        })
        .unwrap_or(0);
    let mut x = rng::mix(seed, n);
    let mut i = 0;
    while i < len {
        let v = rng::splitmix(&mut x).to_le_bytes();
        let mut j = 0;
        while j < 8 && i < len {
            *buf.add(i) = v[j];
            i += 1;
            j += 1;
        }
    }
    len as isize
}

// ---- harness output --------------------------------------------------------------------------
// The repository's \tracingmacros hook (and \sleep, and StdLibState's default terminal) print to
// the real stdout with println!. So that this code can run unmodified, file descriptor 1 is
// pointed at /dev/null for the whole process and the harness writes its own lines to a duplicate
// of the original stdout.

static OUT: std::sync::OnceLock<std::sync::Mutex<std::fs::File>> = std::sync::OnceLock::new();

pub fn init_output() {
    use std::os::fd::FromRawFd;
    unsafe {
        let saved = libc::dup(1);
        let devnull = libc::open(c"/dev/null".as_ptr(), libc::O_WRONLY);
        if saved >= 0 && devnull >= 0 {
            libc::dup2(devnull, 1);
            libc::close(devnull);
            let _ = OUT.set(std::sync::Mutex::new(std::fs::File::from_raw_fd(saved)));
        }
    }
}

pub fn out_line(s: &str) {
    use std::io::Write;
    match OUT.get() {
        Some(f) => {
            let mut f = f.lock().unwrap();
            let _ = writeln!(f, "{s}");
            let _ = f.flush();
        }
        None => println!("{s}"),
    }
}

#[macro_export]
macro_rules! outln {
    () => { $crate::process::out_line("") };
    ($($a:tt)*) => { $crate::process::out_line(&format!($($a)*)) };
}

/// Marker payload used to unwind out of a run whose expansion budget is exhausted.
pub struct BudgetExceeded;

// ---- memory budget ------------------------------------------------------------------------
// Allocation failure aborts the whole process instead of unwinding, so a program that allocates
// without bound (a recursive macro in scroll mode logs an ever deeper stack trace per level) must
// be cut before it gets there. A counting allocator keeps the net bytes allocated by the current
// thread; the step-budget hooks consult it and unwind with `BudgetExceeded`.

pub struct CountingAlloc;

thread_local! {
    static NET_BYTES: Cell<i64> = const { Cell::new(0) };
}

unsafe impl std::alloc::GlobalAlloc for CountingAlloc {
    unsafe fn alloc(&self, layout: std::alloc::Layout) -> *mut u8 {
        let _ = NET_BYTES.try_with(|n| n.set(n.get() + layout.size() as i64));
        std::alloc::System.alloc(layout)
    }
    unsafe fn dealloc(&self, ptr: *mut u8, layout: std::alloc::Layout) {
        let _ = NET_BYTES.try_with(|n| n.set(n.get() - layout.size() as i64));
        std::alloc::System.dealloc(ptr, layout)
    }
    unsafe fn realloc(&self, ptr: *mut u8, layout: std::alloc::Layout, new_size: usize) -> *mut u8 {
        let _ = NET_BYTES.try_with(|n| n.set(n.get() + new_size as i64 - layout.size() as i64));
        std::alloc::System.realloc(ptr, layout, new_size)
    }
}

/// Net bytes the current simulated process may hold before its run is cut as "budget".
pub const MEMORY_BUDGET_BYTES: i64 = 1 << 30;

pub fn over_memory_budget() -> bool {
    NET_BYTES.try_with(|n| n.get() > MEMORY_BUDGET_BYTES).unwrap_or(false)
}

/// Unwind with the budget marker if the current thread holds more memory than the budget.
pub fn check_memory_budget() {
    if over_memory_budget() {
        std::panic::resume_unwind(Box::new(BudgetExceeded));
    }
}

/// Install the panic hook (once, at start-up): record location and message per thread, print nothing.
pub fn install_panic_hook() {
    panic::set_hook(Box::new(|info| {
        let loc = match info.location() {
            Some(l) => format!("{}:{}", l.file(), l.line()),
            None => "?".to_string(),
        };
        let msg = if let Some(s) = info.payload().downcast_ref::<&str>() {
            s.to_string()
        } else if let Some(s) = info.payload().downcast_ref::<String>() {
            s.clone()
        } else {
            "<non-string panic payload>".to_string()
        };
        let _ = LAST_PANIC.try_with(|p| *p.borrow_mut() = Some((loc, msg)));
    }));
}

pub fn take_last_panic() -> Option<(String, String)> {
    LAST_PANIC.with(|p| p.borrow_mut().take())
}

/// Outcome of running a closure under `catch`.
pub enum Caught<T> {
    Ok(T),
    Budget,
    Panic { location: String, message: String },
}

/// Run `f`, converting a panic into data. The budget marker is recognised and reported separately.
pub fn catch<T, F: FnOnce() -> T>(f: F) -> Caught<T> {
    let _ = take_last_panic();
    match panic::catch_unwind(panic::AssertUnwindSafe(f)) {
        Ok(v) => Caught::Ok(v),
        Err(payload) => {
            if payload.downcast_ref::<BudgetExceeded>().is_some() {
                return Caught::Budget;
            }
            let (location, message) = take_last_panic().unwrap_or_else(|| {
                let msg = if let Some(s) = payload.downcast_ref::<&str>() {
                    s.to_string()
                } else if let Some(s) = payload.downcast_ref::<String>() {
                    s.clone()
                } else {
                    "<unknown>".to_string()
                };
                ("?".to_string(), msg)
            });
            Caught::Panic { location, message }
        }
    }
}

const STACK_BYTES: usize = 256 << 20;

/// Run `f` in a new simulated process with the given hash seed and wait for it.
///
/// A panic that escapes `f` (i.e. one not caught by the per-line `catch`) is returned as `Err`.
pub fn run_process<T, F>(hash_seed: u64, f: F) -> Result<T, (String, String)>
where
    T: Send + 'static,
    F: FnOnce() -> T + Send + 'static,
{
    run_process_with_stack(hash_seed, STACK_BYTES, f)
}

/// Same, with an explicit stack size (container histories do not recurse).
pub fn run_process_with_stack<T, F>(
    hash_seed: u64,
    stack: usize,
    f: F,
) -> Result<T, (String, String)>
where
    T: Send + 'static,
    F: FnOnce() -> T + Send + 'static,
{
    let handle = std::thread::Builder::new()
        .stack_size(stack)
        .spawn(move || {
            HASH_SEED.with(|s| s.set(Some(hash_seed)));
            // Touch RandomState now so the keys are fixed before anything else runs.
            let _ = std::collections::hash_map::RandomState::new();
            match catch(f) {
                Caught::Ok(v) => Ok(v),
                Caught::Budget => Err(("budget".to_string(), "budget escaped".to_string())),
                Caught::Panic { location, message } => Err((location, message)),
            }
        })
        .expect("spawn simulated process");
    match handle.join() {
        Ok(r) => r,
        Err(_) => Err(("?".into(), "process thread died".into())),
    }
}

/// Self-test of the hash-seed seam: iteration order of a std HashMap must be a function of the seed.
pub fn hash_order_probe(seed: u64) -> Vec<u32> {
    run_process(seed, || {
        let mut m = std::collections::HashMap::new();
        for i in 0..64u32 {
            m.insert(i, ());
        }
        m.keys().copied().collect::<Vec<u32>>()
    })
    .unwrap()
}
