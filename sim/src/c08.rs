//! C08 — checkpointing is transparent. Differential oracle: the same lines executed once by one
//! process with no crash are the reference; every (re-)execution of line i under the fault
//! schedule must yield the reference's line-i observables, and serialise/deserialise must succeed
//! for every reachable state.

use serde::{Deserialize, Serialize};

use crate::c01::{add_fault_counters, components_json, panic_site};
use crate::check::*;
use crate::driver::*;
use crate::gen;
use crate::gen08::RawGen;
use crate::job::*;
use crate::model::{Model, PREAMBLE};
use crate::ops::*;
use crate::rng::Rng;

#[derive(Clone, Debug, Default, Serialize, Deserialize, PartialEq, Eq)]
pub struct LineMeta {
    pub conds: u8,
    pub streams: u8,
}

#[derive(Clone, Debug, Serialize, Deserialize)]
pub struct Case {
    pub program: Program,
    /// Generator-side facts per line (open conditionals / streams after the line); statistics only.
    pub meta: Vec<LineMeta>,
    /// Generator-side reach probes (which raw constructs were emitted); statistics only.
    #[serde(default)]
    pub gen_reach: Vec<String>,
    pub env: EnvSpec,
    pub schedule: Schedule,
    pub reference_hash_seed: u64,
    pub clock: Clock,
    /// Run on the repository's own StdLibState (scoping ops only; no files, terminal or modes).
    #[serde(default)]
    pub real_state: bool,
}

pub struct C08;

pub fn build_job(case: &Case) -> (Job, Vec<crate::model::Rendered>) {
    let rendered = Model::render(&case.program, case.clock.year, case.clock.day);
    let mut lines = vec![PREAMBLE.to_string()];
    lines.extend(rendered.iter().map(|r| r.text.clone()));
    (
        Job {
            lines,
            env: case.env.clone(),
            clock: case.clock.clone(),
            real_state: case.real_state,
        },
        rendered,
    )
}

/// First differing observable between a reference execution of a line and another one.
pub fn diff_obs(a: &LineObs, b: &LineObs) -> Option<(&'static str, String)> {
    if a.out != b.out {
        return Some(("out", format!("reference {:?}, got {:?}", a.out, b.out)));
    }
    match (&a.result, &b.result) {
        (LineResult::Err(x), LineResult::Err(y)) => {
            if x.kind != y.kind || x.title != y.title {
                return Some((
                    "error",
                    format!("reference error `{}`, got `{}`", x.title, y.title),
                ));
            }
            if x.position != y.position {
                return Some((
                    "error-position",
                    format!("reference {:?}, got {:?}", x.position, y.position),
                ));
            }
            if x.stack != y.stack {
                return Some((
                    "error-stack",
                    format!("reference {:?}, got {:?}", x.stack, y.stack),
                ));
            }
            if x.renders != y.renders || x.rendered_len_nonzero != y.rendered_len_nonzero {
                return Some(("error-rendering", "rendering differs".into()));
            }
        }
        (x, y) => {
            if x != y {
                return Some((
                    "result",
                    format!("reference {}, got {}", x.short(), y.short()),
                ));
            }
        }
    }
    if a.term_out != b.term_out {
        return Some((
            "terminal-output",
            format!("reference {:?}, got {:?}", a.term_out, b.term_out),
        ));
    }
    if a.log != b.log {
        return Some(("log", format!("reference {:?}, got {:?}", a.log, b.log)));
    }
    if a.prompts != b.prompts {
        return Some((
            "prompts",
            format!("reference {:?}, got {:?}", a.prompts, b.prompts),
        ));
    }
    if a.term_lines_consumed != b.term_lines_consumed {
        return Some(("terminal-consumed", "terminal lines consumed differ".into()));
    }
    if a.font != b.font {
        return Some((
            "current-font",
            format!("reference {}, got {}", a.font, b.font),
        ));
    }
    if a.font_events != b.font_events {
        return Some((
            "font-hook-events",
            format!("reference {:?}, got {:?}", a.font_events, b.font_events),
        ));
    }
    if a.exec_stack != b.exec_stack {
        return Some(("execution-stack", "execution stack depth differs".into()));
    }
    if a.num_sources_after != b.num_sources_after {
        return Some(("source-stack", "number of sources differs".into()));
    }
    None
}

impl Property for C08 {
    type Case = Case;
    fn id(&self) -> &'static str {
        "C08"
    }
    fn runs(&self, tier: Tier) -> u64 {
        match tier {
            Tier::Quick => 20_000,
            Tier::Thorough => 300_000,
        }
    }

    fn generate(&self, run_seed: u64, run_index: u64) -> Case {
        let real_state = run_index % 6 == 5;
        let mut cfg_rng = Rng::split(run_seed, 1);
        let mut work_rng = Rng::split(run_seed, 2);
        let mut fault_rng = Rng::split(run_seed, 3);
        let mut hash_rng = Rng::split(run_seed, 4);
        let mut raw_rng = Rng::split(run_seed, 5);
        let clock = Clock {
            minutes: cfg_rng.below(1440) as i32,
            day: 1 + cfg_rng.below(28) as i32,
            month: 1 + cfg_rng.below(12) as i32,
            year: 1990 + cfg_rng.below(60) as i32,
        };
        let mut cfg = gen::scope_cfg(&mut cfg_rng);
        cfg.no_tracingmacros = real_state;
        let mut raw = RawGen::new(&mut cfg_rng);
        if real_state {
            raw.restrict_to_pure();
        }
        let raw_share = [0u32, 25, 50, 75][cfg_rng.below(4)];
        let mut lines: Vec<Vec<Op>> = vec![];
        let mut meta: Vec<LineMeta> = vec![];
        {
            let mut g = gen::ScopeGen::new(&cfg, &mut work_rng, clock.year, clock.day);
            let nlines = cfg.lines;
            for _ in 0..nlines {
                let mut ops = if raw_rng.chance(raw_share, 100) {
                    vec![]
                } else {
                    g.gen_line()
                };
                // Interleave raw pieces.
                let nraw = if raw_share == 0 {
                    0
                } else {
                    raw_rng.below(3) + usize::from(ops.is_empty())
                };
                for _ in 0..nraw {
                    if let Some(p) = raw.piece(&mut raw_rng) {
                        let at = raw_rng.below(ops.len() + 1);
                        // never place raw text after an op that ends the line with a fatal error
                        ops.insert(at.min(ops.len()), Op::Raw(p));
                    }
                }
                if raw_share > 0 && raw_rng.chance(1, 12) {
                    ops = vec![Op::RawLine(raw.whole_line(&mut raw_rng))];
                }
                if ops.is_empty() {
                    ops.push(Op::ReadReg {
                        kind: RegKind::Count,
                        idx: 0,
                    });
                }
                lines.push(ops);
                meta.push(LineMeta {
                    conds: raw.open_conditionals() as u8,
                    streams: raw.open_streams() as u8,
                });
            }
            // Closing lines and probe block come from the scoping generator.
            let tail = {
                let mut t = vec![];
                if g.rng.chance(3, 5) {
                    while g.model.depth() > 0 {
                        let l = vec![
                            Op::End,
                            Op::ReadReg {
                                kind: RegKind::Count,
                                idx: 0,
                            },
                        ];
                        let _ = g.model.line(&l);
                        t.push(l);
                    }
                }
                t.extend(g.probe_block());
                t
            };
            for l in tail {
                lines.push(l);
                meta.push(LineMeta {
                    conds: raw.open_conditionals() as u8,
                    streams: raw.open_streams() as u8,
                });
            }
        }
        // Raw probe lines at the very end: every allocated integer and array element, then a few
        // random pieces.
        if let Some(l) = raw.alloc_probe_line() {
            lines.push(vec![Op::Raw(l)]);
            meta.push(LineMeta {
                conds: raw.open_conditionals() as u8,
                streams: raw.open_streams() as u8,
            });
        }
        for _ in 0..3 {
            let mut ops = vec![];
            for _ in 0..3 {
                if let Some(p) = raw.piece(&mut raw_rng) {
                    ops.push(Op::Raw(p));
                }
            }
            if !ops.is_empty() {
                lines.push(ops);
                meta.push(LineMeta {
                    conds: raw.open_conditionals() as u8,
                    streams: raw.open_streams() as u8,
                });
            }
        }
        let env = raw.env(&mut raw_rng);
        let program = Program { lines };
        let mut fc = gen::fault_cfg(&mut cfg_rng);
        // One crash in about forty restarts into a separate OS process (costly: spawn + boot).
        fc.os_process_rate = 25;
        let mut schedule = gen::gen_schedule(
            &fc,
            &mut fault_rng,
            program.lines.len() + 1,
            hash_rng.next_u64(),
        );
        // Make sure the state reached at the end is restored at least once before the final
        // probes in most runs: a late checkpoint + crash.
        if fault_rng.chance(3, 4) {
            let format = Format::ALL[fault_rng.below(3)];
            // The trailing implicit run-to-end executes whatever is left after this.
            let tail_lines = 3 + fault_rng.below(8);
            let total: usize = program.lines.len() + 1;
            let executed: usize = total.saturating_sub(tail_lines);
            let mut s = vec![Step::Run(executed)];
            s.push(Step::Checkpoint {
                format,
                lost: false,
            });
            s.push(Step::Crash {
                hash_seed: hash_rng.next_u64(),
            });
            // Only append when the drawn schedule has not already covered the whole job
            // (appending is harmless either way: Run(n) is "up to n more lines").
            schedule.steps.extend(s);
        }
        Case {
            program,
            meta,
            gen_reach: raw.reach.iter().map(|s| s.to_string()).collect(),
            env,
            schedule,
            reference_hash_seed: hash_rng.next_u64(),
            clock,
            real_state,
        }
    }

    fn evaluate(&self, case: &Case) -> Evaluation {
        let mut ev = Evaluation::default();
        let (job, rendered) = build_job(case);
        ev.bump(if case.real_state {
            "runs_on_real_StdLibState"
        } else {
            "runs_on_SimState"
        });
        let reference = run_job(&job, &Schedule::reference(case.reference_hash_seed), true);
        let trace = run_job(&job, &case.schedule, true);
        let mut log = String::new();
        for l in &job.lines {
            log.push_str(l);
            log.push('\n');
        }
        for e in &trace.events {
            log.push_str(e);
            log.push('\n');
        }
        for s in &trace.checkpoint_sizes {
            log.push_str(&format!("ckpt-size-bucket {}\n", s / (1 << 20)));
        }
        let mut ref_by_line: Vec<Option<&LineObs>> = vec![None; job.lines.len()];
        for ex in &reference.execs {
            ref_by_line[ex.line] = Some(&ex.obs);
            ev.bump("reference_lines_executed");
            match &ex.obs.result {
                LineResult::Panic { location, message } => {
                    ev.bump("reference_runs_ending_in_panic");
                    ev.bump(&format!("reference_panic.{}", panic_site(location, message)));
                }
                LineResult::Budget => ev.bump("reference_runs_ending_in_budget"),
                LineResult::Err(_) => ev.bump("reference_lines_with_fatal_error"),
                LineResult::Ok => {}
            }
            if !ex.obs.term_out.is_empty() || !ex.obs.log.is_empty() {
                ev.bump("reach.recovered_error_logged");
            }
            if ex.obs.term_lines_consumed > 0 {
                ev.bump("reach.terminal_line_consumed");
            }
        }
        for r in &rendered {
            for k in &r.reach {
                ev.bump(&format!("reach.{k}"));
            }
        }
        for k in &case.gen_reach {
            ev.bump(&format!("reach.generated.{k}"));
        }
        // Machinery failures: the statement promises a usable VM for every reachable state.
        if let Some(f) = trace.failures.first() {
            let kind = if f.what.starts_with("checkpoint") || f.what.starts_with("roundtrip-checkpoint") {
                "serialise-failed"
            } else {
                "restore-failed"
            };
            ev.violation = Some(Violation {
                class: format!("c08:{kind}"),
                detail: format!("after line {}: {}", f.after_line, f.what),
            });
        }
        if let Some(a) = &trace.aborted {
            if ev.violation.is_none() {
                ev.violation = Some(Violation {
                    class: "c08:aborted".into(),
                    detail: a.clone(),
                });
            }
        }
        let mut comparisons = 0u64;
        let mut after_restore = 0u64;
        for ex in &trace.execs {
            log.push_str(&format!(
                "p{} g{} L{} out={:?} {} font={}\n",
                ex.process,
                ex.generation,
                ex.line,
                ex.obs.out,
                ex.obs.result.short(),
                ex.obs.font
            ));
            ev.bump("lines_executed");
            let Some(r) = ref_by_line[ex.line] else {
                // The reference stopped earlier (panic or budget): not judged.
                ev.bump("lines_not_judged_reference_stopped");
                continue;
            };
            comparisons += 1;
            if ex.generation > 0 {
                after_restore += 1;
            }
            if ev.violation.is_none() {
                if let Some((field, d)) = diff_obs(r, &ex.obs) {
                    ev.violation = Some(Violation {
                        class: format!("c08:diff:{field}"),
                        detail: format!(
                            "line {} `{}` executed by process {} (restore generation {}): {}",
                            ex.line, job.lines[ex.line], ex.process, ex.generation, d
                        ),
                    });
                }
            }
        }
        // Feature vectors at restore points.
        for e in &trace.events {
            if let Some(rest) = e.strip_prefix("crash -> restore ckpt@") {
                let at: usize = rest.split(' ').next().and_then(|s| s.parse().ok()).unwrap_or(0);
                let fmt = rest.split(' ').nth(1).unwrap_or("?");
                let depth = if at >= 2 {
                    rendered.get(at - 2).map(|r| r.depth_after).unwrap_or(0)
                } else {
                    0
                };
                let m = if at >= 2 {
                    case.meta.get(at - 2).cloned().unwrap_or_default()
                } else {
                    LineMeta::default()
                };
                ev.states.insert(format!(
                    "restore depth={} conds={} streams={} fmt={}",
                    depth.min(4),
                    m.conds.min(3),
                    m.streams.min(3),
                    fmt
                ));
                if depth >= 3 {
                    ev.bump("reach.restore_with_ge_3_open_groups");
                }
                if depth >= 1 {
                    ev.bump("reach.restore_inside_group");
                }
                if m.conds >= 1 {
                    ev.bump("reach.restore_with_open_conditional");
                }
                if m.streams >= 1 {
                    ev.bump("reach.restore_with_open_read_stream");
                }
            }
        }
        ev.add("comparisons", comparisons);
        ev.add("comparisons_after_restore", after_restore);
        add_fault_counters(&mut ev, &trace.counts);
        if trace.harness_error.is_some() {
            ev.harness_error = trace.harness_error.clone();
        }
        ev.add("simulated_clock_minutes_at_boot", case.clock.minutes as u64);
        ev.nontrivial = after_restore > 0;
        ev.log = log;
        ev.sample = serde_json::json!({
            "program_as_tex": job.lines,
            "files": case.env.files.iter().map(|(n, b)| (n.clone(), String::from_utf8_lossy(b).to_string())).collect::<Vec<_>>(),
            "terminal_script": case.env.terminal,
            "fault_schedule": format!("{:?}", case.schedule.steps),
            "hash_seeds": {"first": case.schedule.first_hash_seed, "reference": case.reference_hash_seed},
            "clock_at_boot": format!("{:?}", case.clock),
            "events": trace.events,
            "per_line": trace.execs.iter().map(|e| format!("p{} g{} L{} {:?} {}", e.process, e.generation, e.line, e.obs.out, e.obs.result.short())).collect::<Vec<_>>(),
        });
        ev
    }

    fn shrink(&self, case: &Case) -> Vec<Case> {
        // Reuse the C01 shrinker on the (program, schedule) part; keep meta aligned by dropping it
        // (statistics only) once shrinking starts.
        let base = crate::c01::Case {
            program: case.program.clone(),
            schedule: case.schedule.clone(),
            clock: case.clock.clone(),
            real_state: case.real_state,
        };
        let mut out: Vec<Case> = crate::c01::shrink_case(&base)
            .into_iter()
            .map(|c| Case {
                program: c.program,
                meta: vec![],
                gen_reach: vec![],
                env: case.env.clone(),
                schedule: c.schedule,
                reference_hash_seed: case.reference_hash_seed,
                clock: c.clock,
                real_state: case.real_state,
            })
            .collect();
        // Environment: drop files, terminal lines.
        for i in 0..case.env.files.len() {
            let mut c = case.clone();
            c.env.files.remove(i);
            c.meta = vec![];
            out.push(c);
        }
        if !case.env.terminal.is_empty() {
            let mut c = case.clone();
            c.env.terminal.pop();
            c.meta = vec![];
            out.push(c);
        }
        // Raw pieces: try to cut a raw op's text at `;` boundaries.
        for (li, l) in case.program.lines.iter().enumerate() {
            for (oi, op) in l.iter().enumerate() {
                if let Op::Raw(s) = op {
                    if let Some((a, b)) = s.split_once(';') {
                        if !b.is_empty() {
                            for part in [a.to_string() + ";", b.to_string()] {
                                let mut c = case.clone();
                                c.program.lines[li][oi] = Op::Raw(part);
                                c.meta = vec![];
                                out.push(c);
                            }
                        }
                    }
                }
            }
        }
        out
    }

    fn rule(&self) -> String {
        "A case is (op list incl. raw TeX pieces, file set, terminal script, fault schedule, hash seeds, boot clock). The program mixes the C01 scoping ops with raw pieces (macros with delimited/undelimited parameters, conditionals left open across lines, \\newInt/\\newIntArray, \\mathcode/\\mathchardef, interaction-mode switches and recoverable errors, \\openin/\\read/\\ifeof/\\closein on files and the terminal, \\input, fresh names, catcode-dependent lexing, \\expandafter/\\noexpand, \\dump). The schedule interleaves Run / Checkpoint(format, lost?) / RoundTrip(format) / Crash(new hash seed); a restart restores the newest durable checkpoint or cold-boots and re-executes. Oracle: every execution of line i must equal the uninterrupted reference execution of line i in token output, error kind/title/position/stack, terminal and log text, prompts, terminal lines consumed, current font, font-hook events, execution-stack depth and source-stack depth; serialise/deserialise must never fail. Non-trivial = at least one line was executed by a VM that descends from a restore and was compared with the reference. Distinct = distinct FNV hash of the serialised case.".into()
    }
    fn assumptions(&self) -> Vec<String> {
        vec![
            "The uninterrupted single-process execution is taken as the definition of correct behaviour (differential oracle): a defect that is identical with and without checkpointing is invisible here (C01/C19 models cover part of that).".into(),
            "Job input consumed from the environment (terminal cursor, files written by the job, I/O call ordinals) is snapshotted with each checkpoint and rewound on restart.".into(),
            "Not compared by design: checkpoint bytes (hash- and address-ordered), the pending whitespace of script::Component, \\dump's file-name counter (serde(skip) in the repository).".into(),
            "A line that panics or exhausts the step budget in the reference poisons the VM; later lines of that job are not judged (panics are C09's subject).".into(),
            "Tag numbering and code addresses are per OS process and are not varied: restores happen in fresh threads of one OS process.".into(),
            "texlang-stdlib is built with its default features (as shipped, `time` on): `Default` of the time component reads the real clock once when a VM is created, and the simulator overwrites the component with the job's boot clock before the first line; a restored VM must show the checkpointed values, so a restore that consults the wall clock is a violation (its values differ from the reference's).".into(),
        ]
    }
    fn components(&self) -> serde_json::Value {
        components_json()
    }
}
