//! A job: a program of lines executed by a sequence of simulated VM processes, with checkpoints
//! written to simulated durable storage, crashes and restarts. One `Schedule` is one exactly
//! repeatable fault history.

use crate::outln;
use std::path::PathBuf;

use serde::{Deserialize, Serialize};

use crate::driver::*;
use crate::process;
use crate::stdproc::StdProc;

/// A VM process over either state type.
enum Proc {
    Sim(VmProc),
    Std(StdProc),
}

impl Proc {
    fn exec_line(&mut self, text: &str) -> LineObs {
        match self {
            Proc::Sim(p) => p.exec_line(text),
            Proc::Std(p) => p.exec_line(text),
        }
    }
    fn checkpoint(&self, f: Format) -> Result<Vec<u8>, String> {
        match self {
            Proc::Sim(p) => p.checkpoint(f),
            Proc::Std(p) => p.checkpoint(f),
        }
    }
    fn env_cursor(&self) -> EnvCursor {
        match self {
            Proc::Sim(p) => p.env_cursor(),
            Proc::Std(_) => EnvCursor::default(),
        }
    }
    fn fs_snapshot(&self) -> Vec<(PathBuf, Vec<u8>)> {
        match self {
            Proc::Sim(p) => p.fs_snapshot(),
            Proc::Std(_) => vec![],
        }
    }
    fn restore(
        real_state: bool,
        format: Format,
        bytes: &[u8],
        spec: &EnvSpec,
        cursor: &EnvCursor,
        files: &[(PathBuf, Vec<u8>)],
        line: usize,
    ) -> Result<Proc, String> {
        if real_state {
            StdProc::restore(format, bytes).map(Proc::Std)
        } else {
            VmProc::restore(format, bytes, spec, cursor, files, line).map(Proc::Sim)
        }
    }
}

#[derive(Clone, Debug, Default, Serialize, Deserialize, PartialEq, Eq)]
pub struct Job {
    pub lines: Vec<String>,
    pub env: EnvSpec,
    pub clock: Clock,
    /// Run on the repository's own `StdLibState` instead of the harness-owned `SimState`
    /// (only for workloads that touch neither files nor the terminal nor interaction modes).
    #[serde(default)]
    pub real_state: bool,
}

#[derive(Clone, Debug, Serialize, Deserialize, PartialEq, Eq)]
pub enum Step {
    /// Execute up to n further lines.
    Run(usize),
    /// Serialise the VM; unless `lost`, the bytes become durable.
    Checkpoint { format: Format, lost: bool },
    /// Serialise and immediately continue from the deserialised copy inside the same process.
    RoundTrip { format: Format },
    /// Kill the process. The next one (new hash universe) restores the newest durable checkpoint,
    /// or cold-boots if there is none, and re-executes the lines after it.
    Crash { hash_seed: u64 },
    /// Same, but the next process is a separate OS process (ASLR on, so code and heap addresses
    /// differ) that creates `tag_skew` command tags before it builds its VM (so every static tag
    /// gets a different number than in the process that wrote the checkpoint).
    CrashToOsProcess { hash_seed: u64, tag_skew: u32 },
}

#[derive(Clone, Debug, Default, Serialize, Deserialize, PartialEq, Eq)]
pub struct Schedule {
    pub first_hash_seed: u64,
    pub steps: Vec<Step>,
}

impl Schedule {
    pub fn reference(hash_seed: u64) -> Schedule {
        Schedule {
            first_hash_seed: hash_seed,
            steps: vec![],
        }
    }
    pub fn fault_count(&self) -> usize {
        self.steps
            .iter()
            .filter(|s| !matches!(s, Step::Run(_)))
            .count()
    }
}

#[derive(Clone, Debug, Serialize, Deserialize, PartialEq, Eq)]
pub struct Exec {
    pub line: usize,
    pub process: usize,
    /// Number of restores (cross-process or in-process) this VM instance descends from.
    pub generation: usize,
    pub obs: LineObs,
}

#[derive(Clone, Debug, Default, Serialize, Deserialize, PartialEq, Eq)]
pub struct FaultCounts {
    pub crashes: u64,
    pub restores: u64,
    pub cold_boots_after_crash: u64,
    pub checkpoints_durable: u64,
    pub checkpoints_lost: u64,
    pub roundtrips: u64,
    pub by_format: [u64; 3],
    pub lines_reexecuted: u64,
    #[serde(default)]
    pub os_process_restarts: u64,
}

impl FaultCounts {
    pub fn add(&mut self, o: &FaultCounts) {
        self.crashes += o.crashes;
        self.restores += o.restores;
        self.cold_boots_after_crash += o.cold_boots_after_crash;
        self.checkpoints_durable += o.checkpoints_durable;
        self.checkpoints_lost += o.checkpoints_lost;
        self.roundtrips += o.roundtrips;
        for i in 0..3 {
            self.by_format[i] += o.by_format[i];
        }
        self.lines_reexecuted += o.lines_reexecuted;
        self.os_process_restarts += o.os_process_restarts;
    }
}

/// A failure of the checkpoint machinery itself (serialise / deserialise returned Err or panicked).
#[derive(Clone, Debug, Serialize, Deserialize, PartialEq, Eq)]
pub struct MachineryFailure {
    pub after_line: usize,
    pub what: String,
}

#[derive(Clone, Debug, Default, Serialize, Deserialize, PartialEq, Eq)]
pub struct Trace {
    pub execs: Vec<Exec>,
    pub events: Vec<String>,
    pub failures: Vec<MachineryFailure>,
    pub counts: FaultCounts,
    /// Sizes of the checkpoints written (for the event log; bytes themselves are hash-ordered).
    pub checkpoint_sizes: Vec<usize>,
    pub aborted: Option<String>,
    /// The harness itself failed (e.g. a child OS process could not be run): never a verdict.
    #[serde(default)]
    pub harness_error: Option<String>,
}

#[derive(Clone, Serialize, Deserialize)]
struct Ckpt {
    next_line: usize,
    format: Format,
    bytes: Vec<u8>,
    cursor: EnvCursor,
    files: Vec<(PathBuf, Vec<u8>)>,
    generation: usize,
}

#[derive(Serialize, Deserialize)]
struct SegIn {
    job: Job,
    start: Option<Ckpt>,
    steps: Vec<Step>,
    process_no: usize,
    run_to_end: bool,
    stop_on_panic: bool,
}

#[derive(Serialize, Deserialize)]
struct SegOut {
    execs: Vec<Exec>,
    events: Vec<String>,
    failures: Vec<MachineryFailure>,
    new_ckpts: Vec<Ckpt>,
    counts: FaultCounts,
    sizes: Vec<usize>,
    next_line: usize,
    poisoned: bool,
    fatal: Option<String>,
}

fn run_segment(si: SegIn) -> SegOut {
    let mut out = SegOut {
        execs: vec![],
        events: vec![],
        failures: vec![],
        new_ckpts: vec![],
        counts: Default::default(),
        sizes: vec![],
        next_line: 0,
        poisoned: false,
        fatal: None,
    };
    let (mut p, mut cur, mut generation) = match &si.start {
        None => (
            if si.job.real_state {
                Proc::Std(StdProc::boot(&si.job.clock))
            } else {
                Proc::Sim(VmProc::boot(&si.job.env, &si.job.clock))
            },
            0usize,
            0usize,
        ),
        Some(c) => {
            match Proc::restore(
                si.job.real_state,
                c.format,
                &c.bytes,
                &si.job.env,
                &c.cursor,
                &c.files,
                c.next_line,
            ) {
                Ok(p) => {
                    out.counts.restores += 1;
                    (p, c.next_line, c.generation + 1)
                }
                Err(e) => {
                    out.failures.push(MachineryFailure {
                        after_line: c.next_line,
                        what: format!("restore({}): {e}", c.format.name()),
                    });
                    out.fatal = Some("restore failed".into());
                    out.next_line = c.next_line;
                    return out;
                }
            }
        }
    };
    let nlines = si.job.lines.len();
    let exec_lines = |p: &mut Proc,
                          cur: &mut usize,
                          n: usize,
                          generation: usize,
                          out: &mut SegOut| {
        let mut k = 0;
        while k < n && *cur < nlines && !out.poisoned {
            if let Proc::Sim(vp) = p {
                vp.apply_file_updates(&si.job.env.file_updates, *cur);
            }
            let obs = p.exec_line(&si.job.lines[*cur]);
            if si.stop_on_panic
                && matches!(obs.result, LineResult::Panic { .. } | LineResult::Budget)
            {
                out.poisoned = true;
            }
            out.execs.push(Exec {
                line: *cur,
                process: si.process_no,
                generation,
                obs,
            });
            *cur += 1;
            k += 1;
        }
    };
    for step in &si.steps {
        if out.poisoned {
            break;
        }
        match step {
            Step::Run(n) => exec_lines(&mut p, &mut cur, *n, generation, &mut out),
            Step::Checkpoint { format, lost } => match p.checkpoint(*format) {
                Ok(bytes) => {
                    out.sizes.push(bytes.len());
                    out.counts.by_format[*format as usize] += 1;
                    if *lost {
                        out.counts.checkpoints_lost += 1;
                        out.events
                            .push(format!("ckpt-lost@{cur} {}", format.name()));
                    } else {
                        out.counts.checkpoints_durable += 1;
                        out.events.push(format!("ckpt@{cur} {}", format.name()));
                        out.new_ckpts.push(Ckpt {
                            next_line: cur,
                            format: *format,
                            bytes,
                            cursor: p.env_cursor(),
                            files: p.fs_snapshot(),
                            generation,
                        });
                    }
                }
                Err(e) => {
                    out.events.push(format!("ckpt-failed@{cur}"));
                    out.failures.push(MachineryFailure {
                        after_line: cur,
                        what: format!("checkpoint({}): {e}", format.name()),
                    });
                }
            },
            Step::RoundTrip { format } => match p.checkpoint(*format) {
                Ok(bytes) => {
                    out.sizes.push(bytes.len());
                    out.counts.by_format[*format as usize] += 1;
                    match Proc::restore(
                        si.job.real_state,
                        *format,
                        &bytes,
                        &si.job.env,
                        &p.env_cursor(),
                        &p.fs_snapshot(),
                        cur,
                    ) {
                        Ok(np) => {
                            out.counts.roundtrips += 1;
                            out.events.push(format!("roundtrip@{cur} {}", format.name()));
                            p = np;
                            generation += 1;
                        }
                        Err(e) => {
                            out.failures.push(MachineryFailure {
                                after_line: cur,
                                what: format!("roundtrip-restore({}): {e}", format.name()),
                            });
                        }
                    }
                }
                Err(e) => {
                    out.failures.push(MachineryFailure {
                        after_line: cur,
                        what: format!("roundtrip-checkpoint({}): {e}", format.name()),
                    });
                }
            },
            Step::Crash { .. } | Step::CrashToOsProcess { .. } => {
                unreachable!("segments are cut at crashes")
            }
        }
    }
    if si.run_to_end {
        exec_lines(&mut p, &mut cur, usize::MAX, generation, &mut out);
    }
    out.next_line = cur;
    out
}

/// Execute the job under the schedule. `stop_on_panic`: a panicking line poisons the VM, the job
/// stops there (used by differential oracles; totality checks keep going instead).
pub fn run_job(job: &Job, sched: &Schedule, stop_on_panic: bool) -> Trace {
    let mut trace = Trace::default();
    let mut durable: Vec<Ckpt> = vec![];
    // Cut the schedule into segments at crashes.
    let mut segments: Vec<(u64, Option<u32>, Vec<Step>)> = vec![(sched.first_hash_seed, None, vec![])];
    for s in &sched.steps {
        match s {
            Step::Crash { hash_seed } => segments.push((*hash_seed, None, vec![])),
            Step::CrashToOsProcess {
                hash_seed,
                tag_skew,
            } => segments.push((*hash_seed, Some(*tag_skew), vec![])),
            other => segments.last_mut().unwrap().2.push(other.clone()),
        }
    }
    let nseg = segments.len();
    let mut high_water = 0usize;
    for (i, (hash_seed, os_process, steps)) in segments.into_iter().enumerate() {
        let start = if i == 0 { None } else { durable.last().cloned() };
        if i > 0 {
            trace.counts.crashes += 1;
            match &start {
                None => {
                    trace.counts.cold_boots_after_crash += 1;
                    trace.events.push(format!("crash -> cold boot (hash {hash_seed:x})"));
                }
                Some(c) => trace.events.push(format!(
                    "crash -> restore ckpt@{} {} (hash {hash_seed:x})",
                    c.next_line,
                    c.format.name()
                )),
            }
        }
        let si = SegIn {
            job: job.clone(),
            start,
            steps,
            process_no: i,
            run_to_end: i + 1 == nseg,
            stop_on_panic,
        };
        if os_process.is_some() {
            trace.counts.os_process_restarts += 1;
        }
        let so: SegOut = match os_process {
            None => match process::run_process(hash_seed, move || run_segment(si)) {
                Ok(v) => v,
                Err((loc, msg)) => {
                    trace.aborted =
                        Some(format!("process panicked outside a line at {loc}: {msg}"));
                    return trace;
                }
            },
            Some(skew) => match run_segment_in_os_process(&si, hash_seed, skew) {
                Ok(v) => v,
                Err(e) => {
                    trace.harness_error = Some(format!("child OS process failed: {e}"));
                    return trace;
                }
            },
        };
        let SegOut {
            execs,
            events,
            failures,
            new_ckpts,
            counts,
            sizes,
            next_line,
            poisoned,
            fatal,
        } = so;
        for e in &execs {
            if e.line < high_water {
                trace.counts.lines_reexecuted += 1;
            }
        }
        high_water = high_water.max(next_line);
        trace.execs.extend(execs);
        trace.events.extend(events);
        trace.failures.extend(failures);
        trace.counts.add(&counts);
        trace.checkpoint_sizes.extend(sizes);
        durable.extend(new_ckpts);
        if poisoned {
            trace.events.push("poisoned: panic inside a line".into());
            break;
        }
        if let Some(f) = fatal {
            trace.aborted = Some(f);
            break;
        }
    }
    trace
}


/// Run one segment in a separate OS process: `texsim segment-child <in> <out>`.
fn run_segment_in_os_process(si: &SegIn, hash_seed: u64, tag_skew: u32) -> Result<SegOut, String> {
    static COUNTER: std::sync::atomic::AtomicU64 = std::sync::atomic::AtomicU64::new(0);
    let n = COUNTER.fetch_add(1, std::sync::atomic::Ordering::SeqCst);
    let dir = std::env::temp_dir();
    let fin = dir.join(format!("texsim-{}-seg-{n}.in", std::process::id()));
    let fout = dir.join(format!("texsim-{}-seg-{n}.out", std::process::id()));
    let bytes = bincode::serde::encode_to_vec(si, bincode::config::standard())
        .map_err(|e| format!("encode: {e}"))?;
    std::fs::write(&fin, bytes).map_err(|e| e.to_string())?;
    let exe = std::env::current_exe().map_err(|e| e.to_string())?;
    let out = std::process::Command::new(exe)
        .arg("segment-child")
        .arg(&fin)
        .arg(&fout)
        .arg(hash_seed.to_string())
        .arg(tag_skew.to_string())
        .output()
        .map_err(|e| e.to_string())?;
    let r = (|| {
        if !out.status.success() {
            return Err(format!(
                "exit {:?}: {}",
                out.status.code(),
                String::from_utf8_lossy(&out.stdout)
            ));
        }
        let b = std::fs::read(&fout).map_err(|e| e.to_string())?;
        let (so, _): (SegOut, usize) =
            bincode::serde::decode_from_slice(&b, bincode::config::standard())
                .map_err(|e| format!("decode: {e}"))?;
        Ok(so)
    })();
    let _ = std::fs::remove_file(&fin);
    let _ = std::fs::remove_file(&fout);
    r
}

/// Entry point of the child: re-enable ASLR for itself (the parent runs under `setarch -R`, which
/// children inherit), burn `tag_skew` tags, then run the segment in a simulated process.
pub fn segment_child_main(args: &[String]) -> i32 {
    if std::env::var("TEXSIM_CHILD_REEXEC").is_err() {
        // Clear ADDR_NO_RANDOMIZE and exec ourselves again so that the new image is randomised.
        unsafe {
            let cur = libc::personality(0xffff_ffff);
            if cur >= 0 {
                libc::personality((cur as libc::c_ulong) & !(libc::ADDR_NO_RANDOMIZE as libc::c_ulong));
            }
        }
        let exe = std::env::current_exe().unwrap();
        let st = std::process::Command::new(exe)
            .arg("segment-child")
            .args(args)
            .env("TEXSIM_CHILD_REEXEC", "1")
            .status();
        return match st {
            Ok(s) => s.code().unwrap_or(3),
            Err(_) => 3,
        };
    }
    let hash_seed: u64 = args[2].parse().unwrap_or(1);
    let tag_skew: u32 = args[3].parse().unwrap_or(0);
    for _ in 0..tag_skew {
        let _ = texlang::command::Tag::new();
    }
    let b = match std::fs::read(&args[0]) {
        Ok(b) => b,
        Err(e) => {
            outln!("read: {e}");
            return 3;
        }
    };
    let si: SegIn = match bincode::serde::decode_from_slice(&b, bincode::config::standard()) {
        Ok((si, _)) => si,
        Err(e) => {
            outln!("decode: {e}");
            return 3;
        }
    };
    match process::run_process(hash_seed, move || run_segment(si)) {
        Ok(so) => {
            let bytes = bincode::serde::encode_to_vec(&so, bincode::config::standard()).unwrap();
            if std::fs::write(&args[1], bytes).is_err() {
                return 3;
            }
            0
        }
        Err((loc, msg)) => {
            outln!("segment panicked outside a line at {loc}: {msg}");
            3
        }
    }
}
