#!/bin/sh
# usage: tools_run_demo.sh <worktree> <id>   -- runs the change's demonstration with and without the change
WT="$1"; ID="$2"; cd "$WT" || exit 2
D="_seeded/$ID"
export CARGO_NET_OFFLINE=true
clean() { git checkout -q -- . ; git clean -q -fd -e _seeded; }
run_demo() {
  case "$ID" in
    c01-*|c19-*) n=$(echo "$ID" | tr - _); f=$(ls $D/demo/seeded_*.rs | head -1); b=$(basename "$f" .rs)
       mkdir -p crates/texlang-stdlib/tests; cp "$f" crates/texlang-stdlib/tests/
       cargo test -p texlang-stdlib --offline --test "$b" 2>&1 | grep -E "^test result|FAILED|panicked" | head -3 ;;
    c20-a|c20-b|c20-c) f=$(ls $D/demo/*_demo.rs | head -1); b=$(basename "$f" .rs)
       mkdir -p crates/texcraft-stdext/tests; cp "$f" crates/texcraft-stdext/tests/
       cargo test -p texcraft-stdext --features color,serde --offline --test "$b" 2>&1 | grep -E "^test result|FAILED" | head -3 ;;
    c20-d) mkdir -p crates/texlang/tests; cp $D/demo/c20d_demo.rs crates/texlang/tests/
       cargo test -p texlang --offline --test c20d_demo 2>&1 | grep -E "^test result|FAILED|rounds" | head -3 ;;
    c08-*) git apply "$D/demo/demo_tests.diff" || echo "demo diff does not apply"
       n=$(echo "$ID" | sed 's/c08-/c08_/'); cargo test -p texlang-stdlib --features serde --offline "${n}_" 2>&1 | grep -E "^test result" | head -2 ;;
    c09-*) CARGO_TARGET_DIR="$WT/target/seeded-demo" cargo run -q --offline --manifest-path "$D/demo/Cargo.toml" > /tmp/demo-$ID.out 2>&1; echo "exit $? : $(tail -n 2 /tmp/demo-$ID.out | tr '\n' ' ' | cut -c1-200)" ;;
  esac
}
clean; echo "[$ID] WITHOUT change:"; run_demo
clean; git apply "$D/patch.diff"; echo "[$ID] WITH change:"; run_demo
clean
