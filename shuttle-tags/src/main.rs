//! C20 (d): command tags under threads.
//!
//! The repository's `Tag::new`, `StaticTag::new` and `StaticTag::get` are compiled unchanged with
//! `--cfg texcraft_verif`, which makes `std::sync::{Mutex, OnceLock}` inside
//! `texlang/src/command/mod.rs` resolve to shuttle's primitives. shuttle's seeded random and PCT
//! schedulers then decide every interleaving; a failing schedule is persisted and replays exactly.

use std::collections::{BTreeMap, BTreeSet};
use std::panic;
use std::path::{Path, PathBuf};
use std::sync::atomic::{AtomicU64, Ordering};
use std::sync::Arc;
use std::time::Instant;

use shuttle::rand::Rng;
use shuttle::scheduler::{PctScheduler, RandomScheduler, Scheduler};
use shuttle::{Config, FailurePersistence, Runner};
use texlang::command::{StaticTag, Tag};

static S0: StaticTag = StaticTag::new();
static S1: StaticTag = StaticTag::new();
static S2: StaticTag = StaticTag::new();

fn statics() -> [&'static StaticTag; 3] {
    [&S0, &S1, &S2]
}

#[derive(Clone, Copy, Debug)]
enum Op {
    New,
    Static(usize),
}

// Harness-side measurement (not part of the simulated system).
static EXECUTIONS: AtomicU64 = AtomicU64::new(0);
static RACED_STATIC: AtomicU64 = AtomicU64::new(0);
static TAGS_CREATED: AtomicU64 = AtomicU64::new(0);
static SIGNATURES: std::sync::Mutex<BTreeSet<u64>> = std::sync::Mutex::new(BTreeSet::new());
static SAMPLES: std::sync::Mutex<Vec<String>> = std::sync::Mutex::new(Vec::new());

fn fnv(bytes: &[u8]) -> u64 {
    let mut h: u64 = 0xcbf2_9ce4_8422_2325;
    for b in bytes {
        h ^= *b as u64;
        h = h.wrapping_mul(0x0000_0100_0000_01B3);
    }
    h
}

/// One simulated execution: T threads, each a seeded mix of `Tag::new()` and `STATIC_k.get()`.
fn scenario(max_threads: usize, max_ops: usize) {
    let mut rng = shuttle::rand::thread_rng();
    let t = rng.gen_range(2..=max_threads);
    let mut plans: Vec<Vec<Op>> = vec![];
    for _ in 0..t {
        let n = rng.gen_range(1..=max_ops);
        let mut ops = vec![];
        for _ in 0..n {
            ops.push(if rng.gen_range(0..100) < 55 {
                Op::New
            } else {
                Op::Static(rng.gen_range(0..3))
            });
        }
        plans.push(ops);
    }
    // Order log: which (thread, op) finished when; a shuttle mutex, so it adds scheduling points
    // but no synchronisation inside Tag::new / StaticTag::get.
    let order: Arc<shuttle::sync::Mutex<Vec<(usize, usize)>>> =
        Arc::new(shuttle::sync::Mutex::new(vec![]));
    let mut handles = vec![];
    for (ti, ops) in plans.iter().cloned().enumerate() {
        let order = order.clone();
        handles.push(shuttle::thread::spawn(move || {
            let mut out: Vec<(Op, Tag)> = vec![];
            for (oi, op) in ops.iter().enumerate() {
                let tag = match op {
                    Op::New => Tag::new(),
                    Op::Static(k) => statics()[*k].get(),
                };
                out.push((*op, tag));
                order.lock().unwrap().push((ti, oi));
            }
            out
        }));
    }
    let mut results: Vec<Vec<(Op, Tag)>> = vec![];
    for h in handles {
        results.push(h.join().unwrap());
    }
    // The main thread looks too, after everybody else.
    let main_view: Vec<Tag> = statics().iter().map(|s| s.get()).collect();

    // Oracle.
    let mut fresh: Vec<Tag> = vec![];
    let mut static_values: BTreeMap<usize, BTreeSet<Tag>> = BTreeMap::new();
    let mut static_threads: BTreeMap<usize, BTreeSet<usize>> = BTreeMap::new();
    for (ti, r) in results.iter().enumerate() {
        for (op, tag) in r {
            match op {
                Op::New => fresh.push(*tag),
                Op::Static(k) => {
                    static_values.entry(*k).or_default().insert(*tag);
                    static_threads.entry(*k).or_default().insert(ti);
                }
            }
        }
    }
    for (k, v) in main_view.iter().enumerate() {
        static_values.entry(k).or_default().insert(*v);
    }
    let distinct: BTreeSet<Tag> = fresh.iter().copied().collect();
    assert!(
        distinct.len() == fresh.len(),
        "TAG-VIOLATION duplicate tag from Tag::new(): {} tags created, {} distinct ({:?})",
        fresh.len(),
        distinct.len(),
        fresh
    );
    for (k, vals) in &static_values {
        assert!(
            vals.len() == 1,
            "TAG-VIOLATION static tag {k} resolved to {} different values: {:?}",
            vals.len(),
            vals
        );
        let v = vals.iter().next().unwrap();
        assert!(
            !distinct.contains(v),
            "TAG-VIOLATION static tag {k} has the same value {v:?} as a tag returned by Tag::new()"
        );
    }
    let all_static: BTreeSet<Tag> = static_values.values().flatten().copied().collect();
    assert!(
        all_static.len() == static_values.len(),
        "TAG-VIOLATION two static tags share a value: {:?}",
        static_values
    );

    // Measurement.
    EXECUTIONS.fetch_add(1, Ordering::Relaxed);
    TAGS_CREATED.fetch_add(fresh.len() as u64, Ordering::Relaxed);
    if static_threads.values().any(|s| s.len() >= 2) {
        RACED_STATIC.fetch_add(1, Ordering::Relaxed);
    }
    let ord = order.lock().unwrap().clone();
    let sig = fnv(format!("{plans:?}|{ord:?}").as_bytes());
    SIGNATURES.lock().unwrap().insert(sig);
    let mut s = SAMPLES.lock().unwrap();
    if s.len() < 3 {
        s.push(format!("threads={t} plans={plans:?} completion_order={ord:?}"));
    }
}

struct Batch {
    name: String,
    max_threads: usize,
    max_ops: usize,
    iterations: usize,
    kind: u8, // 0 random, 1..3 pct depth
}

fn batches(tier: &str) -> Vec<Batch> {
    let (scale, big) = if tier == "thorough" { (400, true) } else { (8, false) };
    let mut v = vec![
        Batch { name: "random t<=4 ops<=3".into(), max_threads: 4, max_ops: 3, iterations: 20_000 * scale, kind: 0 },
        Batch { name: "random t<=8 ops<=4".into(), max_threads: 8, max_ops: 4, iterations: 10_000 * scale, kind: 0 },
        Batch { name: "pct d=1 t<=4 ops<=3".into(), max_threads: 4, max_ops: 3, iterations: 8_000 * scale, kind: 1 },
        Batch { name: "pct d=2 t<=4 ops<=3".into(), max_threads: 4, max_ops: 3, iterations: 8_000 * scale, kind: 2 },
        Batch { name: "pct d=3 t<=6 ops<=3".into(), max_threads: 6, max_ops: 3, iterations: 8_000 * scale, kind: 3 },
        Batch { name: "random t<=3 ops<=2".into(), max_threads: 3, max_ops: 2, iterations: 10_000 * scale, kind: 0 },
    ];
    if big {
        v.push(Batch { name: "random t<=64 ops<=2".into(), max_threads: 64, max_ops: 2, iterations: 400_000, kind: 0 });
        v.push(Batch { name: "pct d=2 t<=32 ops<=2".into(), max_threads: 32, max_ops: 2, iterations: 400_000, kind: 2 });
    } else {
        v.push(Batch { name: "random t<=32 ops<=2".into(), max_threads: 32, max_ops: 2, iterations: 12_000, kind: 0 });
    }
    v
}

fn run_batch(b: &Batch, seed: u64, dir: &Path) -> Result<usize, String> {
    let mut cfg = Config::new();
    cfg.failure_persistence = FailurePersistence::File(Some(dir.to_path_buf()));
    let (mt, mo) = (b.max_threads, b.max_ops);
    let before: BTreeSet<PathBuf> = list(dir);
    let r = panic::catch_unwind(panic::AssertUnwindSafe(|| -> usize {
        match b.kind {
            0 => run_with(RandomScheduler::new_from_seed(seed, b.iterations), cfg, mt, mo),
            d => run_with(
                PctScheduler::new_from_seed(seed, d as usize, b.iterations),
                cfg,
                mt,
                mo,
            ),
        }
    }));
    match r {
        Ok(n) => Ok(n),
        Err(p) => {
            let msg = if let Some(s) = p.downcast_ref::<String>() {
                s.clone()
            } else if let Some(s) = p.downcast_ref::<&str>() {
                s.to_string()
            } else {
                "panic".to_string()
            };
            let after = list(dir);
            let new: Vec<&PathBuf> = after.difference(&before).collect();
            let sched = new
                .first()
                .map(|p| p.display().to_string())
                .unwrap_or_default();
            Err(format!("{sched}\u{1}{msg}"))
        }
    }
}

fn run_with<S: Scheduler + 'static>(s: S, cfg: Config, mt: usize, mo: usize) -> usize {
    Runner::new(s, cfg).run(move || scenario(mt, mo))
}

fn list(dir: &Path) -> BTreeSet<PathBuf> {
    std::fs::read_dir(dir)
        .map(|rd| rd.filter_map(|e| e.ok().map(|e| e.path())).collect())
        .unwrap_or_default()
}

fn main() {
    let args: Vec<String> = std::env::args().collect();
    // Quiet panic output: violations are reported through the VIOLATION line.
    panic::set_hook(Box::new(|_| {}));
    match args.get(1).map(String::as_str) {
        Some("run") => {
            let tier = args.get(2).cloned().unwrap_or_else(|| "quick".into());
            let seed: u64 = args.get(3).and_then(|s| s.parse().ok()).unwrap_or(20260925);
            let out = PathBuf::from(args.get(4).cloned().unwrap_or_else(|| "tags.json".into()));
            let replays = PathBuf::from(args.get(5).cloned().unwrap_or_else(|| "replays".into()));
            let _ = std::fs::create_dir_all(&replays);
            let start = Instant::now();
            let mut per_batch = vec![];
            let mut violation: Option<serde_json::Value> = None;
            for (i, b) in batches(&tier).iter().enumerate() {
                let bseed = seed.wrapping_mul(0x9E37_79B9_7F4A_7C15).wrapping_add(i as u64);
                match run_batch(b, bseed, &replays) {
                    Ok(n) => per_batch.push(serde_json::json!({"batch": b.name, "schedules": n, "seed": bseed})),
                    Err(e) => {
                        let (sched, msg) = e.split_once('\u{1}').unwrap_or(("", &e));
                        let rf = replays.join(format!("C20-tags-{seed}-{i}.json"));
                        let v = serde_json::json!({
                            "property": "C20",
                            "kind": "tags",
                            "batch": b.name,
                            "max_threads": b.max_threads,
                            "max_ops": b.max_ops,
                            "verif_seed": seed,
                            "scheduler_seed": bseed,
                            "schedule_file": sched,
                            "violation": {"class": "c20:tags", "detail": msg},
                        });
                        std::fs::write(&rf, serde_json::to_vec_pretty(&v).unwrap()).unwrap();
                        println!("violation in batch `{}`: {}", b.name, msg.lines().next().unwrap_or(""));
                        println!("VIOLATION property=C20 replay={}", rf.display());
                        violation = Some(serde_json::json!({"replay": rf.display().to_string(), "detail": msg}));
                        break;
                    }
                }
            }
            let wall = start.elapsed().as_secs_f64();
            let ex = EXECUTIONS.load(Ordering::Relaxed);
            let ev = serde_json::json!({
                "engine": "shuttle 0.9.3 (RandomScheduler, PctScheduler depth 1-3), seeds derived from VERIF_SEED",
                "schedules_explored": ex,
                "distinct_interleavings": SIGNATURES.lock().unwrap().len(),
                "interleaving_measure": "distinct FNV hash of (per-thread op plans, global completion order of the ops)",
                "tags_created": TAGS_CREATED.load(Ordering::Relaxed),
                "reach.static_tag_requested_by_ge_2_threads": RACED_STATIC.load(Ordering::Relaxed),
                "batches": per_batch,
                "samples": SAMPLES.lock().unwrap().clone(),
                "schedules_per_hour": if wall > 0.0 { (ex as f64 / wall * 3600.0) as u64 } else { 0 },
                "wall_s": wall,
                "violation": violation,
            });
            std::fs::write(&out, serde_json::to_vec_pretty(&ev).unwrap()).unwrap();
            println!(
                "C20 tags: {} schedules, {} distinct interleavings, {:.1}s",
                ex,
                SIGNATURES.lock().unwrap().len(),
                wall
            );
            std::process::exit(if ev["violation"].is_null() { 0 } else { 1 });
        }
        Some("replay") => {
            let path = PathBuf::from(&args[2]);
            let v: serde_json::Value =
                serde_json::from_slice(&std::fs::read(&path).expect("read replay")).expect("parse replay");
            let mt = v["max_threads"].as_u64().unwrap() as usize;
            let mo = v["max_ops"].as_u64().unwrap() as usize;
            let sched = v["schedule_file"].as_str().unwrap().to_string();
            let r = panic::catch_unwind(panic::AssertUnwindSafe(|| {
                shuttle::replay_from_file(move || scenario(mt, mo), &sched);
            }));
            match r {
                Ok(()) => {
                    println!("REPLAY-CLEAN");
                    std::process::exit(0);
                }
                Err(p) => {
                    let msg = p
                        .downcast_ref::<String>()
                        .cloned()
                        .or_else(|| p.downcast_ref::<&str>().map(|s| s.to_string()))
                        .unwrap_or_default();
                    println!("REPLAY-CLASS c20:tags");
                    println!("detail: {}", msg.lines().next().unwrap_or(""));
                    println!("VIOLATION property=C20 replay={}", path.display());
                    std::process::exit(1);
                }
            }
        }
        _ => {
            eprintln!("usage: tagsim run <tier> <seed> <out.json> <replay-dir> | replay <file>");
            std::process::exit(2);
        }
    }
}
