#!/bin/bash
# usage: tools_try_round.sh <scratch-worktree> <id>...  -- run the quick check of each not-yet-stored seeded change (patch under <worktree>/_seeded/<id>/) against it
WT="$1"; shift
for id in "$@"; do
  P=$(echo "$id" | cut -c1-3 | tr a-z A-Z)
  /verif/tools_try_seeded.sh "$WT" "$WT/_seeded/$id/patch.diff" "$P" > /tmp/try-$id.out 2>&1
  if grep -a -q "^VIOLATION" /tmp/try-$id.out; then printf '%s %s CAUGHT %s\n' "$id" "$P" "$(grep -a -m1 -o 'violation at run [0-9]*.*class=[^ ]*\|TAG-VIOLATION.*' /tmp/try-$id.out | cut -c1-200)"; else printf '%s %s MISSED\n' "$id" "$P"; fi
done
