#!/bin/bash
# usage: tools_run_demo4.sh <worktree> <id>  -- round-4 layout: demo/run.sh (bash, exit 0 = property holds)
WT="$1"; ID="$2"; cd "$WT" || exit 2
D="_seeded/$ID"
export CARGO_NET_OFFLINE=true
clean() { git checkout -q -- . ; git clean -q -fd -e _seeded; }
run_demo() { bash "$D/demo/run.sh" > /tmp/demo4-$ID.out 2>&1; echo "exit $? : $(grep -E 'test result|RESULT|VIOLATED|holds' /tmp/demo4-$ID.out | tail -n 2 | tr '\n' ' ' | cut -c1-300)"; }
clean; echo "[$ID] WITHOUT change:"; run_demo
clean; git apply "$D/patch.diff"; echo "[$ID] WITH change:"; run_demo
clean
